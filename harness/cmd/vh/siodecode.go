package main

// siodecode: runs the real Socket.IO decoder (jsonparser.Parser.Add + the decode closure) on
// frame sequences under recover and emits, per case, the inputs, the answers the libraries gave
// (so the Gallina model can be run with the same answers) and the projected observables:
// per-frame outcome {panic, err, more, fin}, header fields, event name, decode outcome and the
// attachments that were placed into the decoded values.
//
// Modes: exhaustive (every string up to -maxlen over 14 protocol-significant bytes, each finished
// packet decoded against every handler family; pending packets are completed with arbitrary
// frames), mutate (grammar-aware mutations of valid packets, seeded), corpus (fixed regression
// inputs: the pre-fix crashers and boundary values), live (a raw peer against a real server).

import (
	"bytes"
	"encoding/json"
	"flag"
	"fmt"
	"io"
	"net/http/httptest"
	"reflect"
	"sort"
	"strconv"
	"strings"
	"sync"
	"time"

	sio "github.com/karagenc/socket.io-go"
	eio "github.com/karagenc/socket.io-go/engine.io"
	eioparser "github.com/karagenc/socket.io-go/engine.io/parser"
	"nhooyr.io/websocket"

	"github.com/karagenc/socket.io-go/parser"
	jsonparser "github.com/karagenc/socket.io-go/parser/json"
	"github.com/karagenc/socket.io-go/parser/json/serializer"
	"github.com/karagenc/socket.io-go/parser/json/serializer/stdjson"

	"verifharness/vk"
)

func init() { register("siodecode", siodecodeMain) }

// ---------------------------------------------------------------- shapes

// sdShape mirrors Sio/Decoder.v `shape`: K = "o" other | "b" Binary cell (E: placeholder
// unmarshal failed, else N) | "s" sequence (slice elements / struct fields) | "M" map (CI: its
// element type is an interface type; L: entry values in key order) | "p" a map entry whose value
// is a placeholder-shaped map (N = int(num); F = shape of that map when walked into).  Whether a
// "p" entry is replaced by an attachment is decided by the MODEL (from CI of the enclosing "M"),
// not here.
type sdShape struct {
	K  string     `json:"k"`
	N  int64      `json:"n,omitempty"`
	E  bool       `json:"e,omitempty"`
	NS bool       `json:"ns,omitempty"` // "b": the cell cannot be written (neither it nor its original is settable)
	CI bool       `json:"ci,omitempty"`
	F  *sdShape   `json:"f,omitempty"`
	L  []*sdShape `json:"l,omitempty"`
}

type sdPlaceholder struct {
	Placeholder bool `json:"_placeholder"`
	Num         int  `json:"num"`
}

type sdBinary interface{ SocketIOBinary() bool }

var sdOther = &sdShape{K: "o"}

func sdDeref(rv reflect.Value) (reflect.Value, reflect.Kind) {
	k := rv.Kind()
	if k == reflect.Interface || k == reflect.Ptr {
		rv = rv.Elem()
		k = rv.Kind()
	}
	if k == reflect.Interface || k == reflect.Ptr {
		rv = rv.Elem()
		k = rv.Kind()
	}
	return rv, k
}

func sdIsBinaryCell(rv reflect.Value) bool {
	if !rv.CanInterface() {
		return false
	}
	sb, ok := rv.Interface().(sdBinary)
	return ok && sb.SocketIOBinary()
}

func sdSortedKeys(rv reflect.Value) []reflect.Value {
	keys := rv.MapKeys()
	sort.Slice(keys, func(i, j int) bool { return fmt.Sprint(keys[i].Interface()) < fmt.Sprint(keys[j].Interface()) })
	return keys
}

// sdWalk follows the traversal of reconstructValue / reconstructStruct / reconstructMap.  With
// collect == nil it returns the shape of the value (as json.Unmarshal left it); with collect != nil
// it appends, in the same order, the byte slices found in the cells the shape marked b / m.
type sdWalker struct {
	js      serializer.JSONSerializer
	collect *[][]byte
}

func (w *sdWalker) binCell(rv, original reflect.Value, customSetter bool) *sdShape {
	if !sdIsBinaryCell(rv) {
		return sdOther
	}
	if w.collect != nil {
		*w.collect = append(*w.collect, append([]byte{}, rv.Bytes()...))
		return sdOther
	}
	ns := !customSetter && !rv.CanSet() && !original.CanSet()
	var p sdPlaceholder
	if err := w.js.Unmarshal(rv.Bytes(), &p); err != nil {
		return &sdShape{K: "b", E: true, NS: ns}
	}
	return &sdShape{K: "b", N: int64(p.Num), NS: ns}
}

func (w *sdWalker) value(rv reflect.Value) *sdShape {
	original := rv
	rv, k := sdDeref(rv)
	switch k {
	case reflect.Slice:
		switch rv.Type().Elem().Kind() {
		case reflect.Ptr, reflect.Interface, reflect.Struct, reflect.Slice:
			s := &sdShape{K: "s"}
			for i := 0; i < rv.Len(); i++ {
				s.L = append(s.L, w.value(rv.Index(i)))
			}
			return s
		case reflect.Uint8:
			return w.binCell(rv, original, false)
		}
	case reflect.Struct:
		s := &sdShape{K: "s"}
		for i := 0; i < rv.NumField(); i++ {
			fv := rv.Field(i)
			if fk := fv.Kind(); fk == reflect.Interface || fk == reflect.Ptr {
				fv = fv.Elem()
			}
			if !fv.IsValid() || !fv.CanInterface() {
				continue
			}
			s.L = append(s.L, w.value(fv))
		}
		return s
	case reflect.Map:
		return w.mapv(rv)
	}
	return sdOther
}

func (w *sdWalker) mapv(rv reflect.Value) *sdShape {
	s := &sdShape{K: "M", CI: rv.Type().Elem().Kind() == reflect.Interface}
	for _, mk := range sdSortedKeys(rv) {
		mv := rv.MapIndex(mk)
		k := mv.Kind()
		if k == reflect.Interface || k == reflect.Ptr {
			mv = mv.Elem()
			k = mv.Kind()
		}
		switch k {
		case reflect.Map:
			if n, ok := sdPlaceholderShaped(mv); ok && w.collect == nil {
				s.L = append(s.L, &sdShape{K: "p", N: n, F: w.value(mv)})
				continue
			}
			s.L = append(s.L, w.value(mv))
		case reflect.Slice:
			if mv.Type().Elem().Kind() == reflect.Uint8 {
				if w.collect != nil && rv.Type().Elem().Kind() == reflect.Interface && !sdIsBinaryCell(mv) {
					// a raw []byte inside a map[string]any can only have been put there by
					// reconstructMap (encoding/json never produces one)
					*w.collect = append(*w.collect, append([]byte{}, mv.Bytes()...))
					s.L = append(s.L, sdOther)
					continue
				}
				s.L = append(s.L, w.binCell(mv, mv, true))
			} else {
				s.L = append(s.L, sdOther) // other slices inside maps are not walked by reconstructMap
			}
		default:
			s.L = append(s.L, w.value(mv))
		}
	}
	return s
}

// sdPlaceholderShaped: is this value of kind Map a map with string keys and exactly the two
// entries "_placeholder" (a bool, true) and "num" (a float64)?  Says nothing about where the map
// sits: the container's element type is reported separately (CI) and judged by the model.
func sdPlaceholderShaped(mv reflect.Value) (int64, bool) {
	if mv.Len() != 2 || mv.Type().Key().Kind() != reflect.String {
		return 0, false
	}
	ph := mv.MapIndex(reflect.ValueOf("_placeholder").Convert(mv.Type().Key()))
	num := mv.MapIndex(reflect.ValueOf("num").Convert(mv.Type().Key()))
	if !ph.IsValid() || !num.IsValid() {
		return 0, false
	}
	if ph.Kind() == reflect.Interface {
		ph = ph.Elem()
	}
	if num.Kind() == reflect.Interface {
		num = num.Elem()
	}
	if ph.Kind() == reflect.Bool && ph.Bool() && num.Kind() == reflect.Float64 {
		return int64(int(num.Float())), true
	}
	return 0, false
}

// ---------------------------------------------------------------- recording JSON wrapper

type sdNameCall struct {
	In  []int   `json:"in"`
	Ok  bool    `json:"ok"`
	Out [][]int `json:"out"`
}

type sdUmCall struct {
	Single  bool       `json:"single"`
	Payload []int      `json:"payload"`
	K       int        `json:"k"`
	Ok      bool       `json:"ok"`
	Shapes  []*sdShape `json:"shapes"`
}

type sdRecJSON struct {
	inner serializer.JSONSerializer
	mu    sync.Mutex
	names []sdNameCall
	um    *sdUmCall
}

func (j *sdRecJSON) Marshal(v any) ([]byte, error)                 { return j.inner.Marshal(v) }
func (j *sdRecJSON) NewEncoder(w io.Writer) serializer.JSONEncoder { return j.inner.NewEncoder(w) }
func (j *sdRecJSON) NewDecoder(r io.Reader) serializer.JSONDecoder { return j.inner.NewDecoder(r) }

func (j *sdRecJSON) Unmarshal(data []byte, v any) error {
	in := append([]byte{}, data...)
	switch t := v.(type) {
	case *[]string:
		err := j.inner.Unmarshal(data, v)
		c := sdNameCall{In: vk.Ints(in), Ok: err == nil, Out: [][]int{}}
		if err == nil {
			for _, s := range *t {
				c.Out = append(c.Out, vk.Ints([]byte(s)))
			}
		}
		j.mu.Lock()
		j.names = append(j.names, c)
		j.mu.Unlock()
		return err
	case *[]any:
		pre := append([]any{}, (*t)...)
		err := j.inner.Unmarshal(data, v)
		j.record(false, in, pre, err)
		return err
	}
	rt := reflect.TypeOf(v)
	if rt != nil && rt.Kind() == reflect.Ptr && rt.Elem().Name() == "placeholder" &&
		strings.HasSuffix(rt.Elem().PkgPath(), "parser/json") {
		return j.inner.Unmarshal(data, v)
	}
	err := j.inner.Unmarshal(data, v)
	j.record(true, in, []any{v}, err)
	return err
}

func (j *sdRecJSON) record(single bool, payload []byte, targets []any, err error) {
	j.mu.Lock()
	defer j.mu.Unlock()
	if j.um != nil {
		return
	}
	c := &sdUmCall{Single: single, Payload: vk.Ints(payload), K: len(targets), Ok: err == nil, Shapes: []*sdShape{}}
	if err == nil {
		w := &sdWalker{js: j.inner}
		for _, t := range targets {
			c.Shapes = append(c.Shapes, w.value(reflect.ValueOf(t)))
		}
	}
	j.um = c
}

// ---------------------------------------------------------------- handler families

type sdStruct struct {
	B Binary0
	M map[string]any
	N int
	P *Binary0
}

type Binary0 = jsonparser.Binary

var sdFamilies = []struct {
	name  string
	types []reflect.Type
}{
	{"none", nil},
	{"bin", []reflect.Type{reflect.TypeOf(Binary0{})}},
	{"map", []reflect.Type{reflect.TypeOf(map[string]any{})}},
	{"any", []reflect.Type{reflect.TypeOf((*any)(nil)).Elem()}},
	{"struct", []reflect.Type{reflect.TypeOf(sdStruct{})}},
	{"mapbin", []reflect.Type{reflect.TypeOf(map[string]Binary0{})}},
	{"slicebin", []reflect.Type{reflect.TypeOf([]Binary0{})}},
	{"binmap", []reflect.Type{reflect.TypeOf(&Binary0{}), reflect.TypeOf(map[string]any{})}},
	{"str", []reflect.Type{reflect.TypeOf("")}},
	{"nested", []reflect.Type{reflect.TypeOf(map[string]map[string]any{})}},
}

func sdFamily(name string) []reflect.Type {
	for _, f := range sdFamilies {
		if f.name == name {
			return f.types
		}
	}
	return nil
}

// ---------------------------------------------------------------- one case

type sdHdr struct {
	T    int     `json:"t"`
	Nsp  []int   `json:"nsp"`
	ID   *string `json:"id"` // decimal, nil = absent
	Att  int64   `json:"att"`
	Name []int   `json:"name"`
}

type sdCase struct {
	Suite  string       `json:"suite"`
	Frames [][]int      `json:"frames"` // the frames actually fed
	MaxAtt int          `json:"maxatt"`
	Fam    string       `json:"fam"`
	Nt     int          `json:"nt"`
	Names  []sdNameCall `json:"names"`
	Outs   []string     `json:"outs"` // per fed frame: more | fin | err | panic
	Hdr    *sdHdr       `json:"hdr"`
	Um     *sdUmCall    `json:"um"`
	Dec    string       `json:"dec"` // "" (not reached) | ok | err | panic
	Bins   [][]int      `json:"bins"`
	Nvals  int          `json:"nvals"`
	Msg    string       `json:"msg,omitempty"`
}

// sdRun feeds frames to a fresh parser until the first error / panic / finished packet, then
// decodes the finished packet with the family's types.
func sdRun(suite string, frames [][]byte, maxAtt int, fam string) sdCase {
	return sdRunTypes(suite, frames, maxAtt, fam, sdFamily(fam))
}

// sdRunTypes: the same with explicit handler parameter types ([fam] is only a label).
func sdRunTypes(suite string, frames [][]byte, maxAtt int, fam string, types []reflect.Type) sdCase {
	js := &sdRecJSON{inner: stdjson.New()}
	p := jsonparser.NewCreator(maxAtt, js)()
	c := sdCase{Suite: suite, MaxAtt: maxAtt, Fam: fam, Frames: [][]int{}, Outs: []string{}, Bins: [][]int{}, Names: []sdNameCall{}}
	c.Nt = len(types)

	var (
		finished bool
		hdr      *parser.PacketHeader
		evName   string
		decode   parser.Decode
	)
	for _, f := range frames {
		c.Frames = append(c.Frames, vk.Ints(f))
		out := func() (out string) {
			defer func() {
				if r := recover(); r != nil {
					out = "panic"
					c.Msg = fmt.Sprint(r)
				}
			}()
			err := p.Add(append([]byte{}, f...), func(h *parser.PacketHeader, name string, d parser.Decode) {
				finished, hdr, evName, decode = true, h, name, d
			})
			if err != nil {
				c.Msg = err.Error()
				return "err"
			}
			if finished {
				return "fin"
			}
			return "more"
		}()
		c.Outs = append(c.Outs, out)
		if out != "more" {
			break
		}
	}
	c.Names = append(c.Names, js.names...)
	if !finished {
		return c
	}
	h := &sdHdr{T: int(hdr.Type), Nsp: vk.Ints([]byte(hdr.Namespace)), Att: int64(hdr.Attachments), Name: vk.Ints([]byte(evName))}
	if hdr.ID != nil {
		s := strconv.FormatUint(*hdr.ID, 10)
		h.ID = &s
	}
	c.Hdr = h

	func() {
		defer func() {
			if r := recover(); r != nil {
				c.Dec = "panic"
				c.Msg = fmt.Sprint(r)
			}
		}()
		vals, err := decode(types...)
		if err != nil {
			c.Dec = "err"
			c.Msg = err.Error()
			return
		}
		c.Dec = "ok"
		c.Nvals = len(vals)
		if len(c.Frames) > 1 { // reconstruct path: collect what was placed
			var got [][]byte
			w := &sdWalker{js: js.inner, collect: &got}
			for _, v := range vals {
				w.value(v)
			}
			for _, b := range got {
				c.Bins = append(c.Bins, vk.Ints(b))
			}
		}
	}()
	c.Um = js.um
	return c
}

// ---------------------------------------------------------------- generators

var sdAlphabet = []byte{'0', '1', '2', '3', '5', '6', '-', '/', ',', '"', '\\', '[', ']', 'a'}

var sdFillFrames = [][]byte{[]byte("x"), []byte(""), []byte(`2["a"]`), {0, 255}}

// sdAllFamilies runs the frames for every family once the packet finishes; otherwise one row.
func sdAllFamilies(out *vk.Out, suite string, frames [][]byte, maxAtt int) {
	first := sdRun(suite, frames, maxAtt, "none")
	out.Put(first)
	if first.Hdr == nil {
		return
	}
	for _, f := range sdFamilies[1:] {
		out.Put(sdRun(suite, frames, maxAtt, f.name))
	}
}

func sdExhaustive(out *vk.Out, maxLen int, workers int) {
	// enumerate prefixes of length 2 as work units
	var units [][]byte
	units = append(units, []byte{})
	for _, a := range sdAlphabet {
		units = append(units, []byte{a})
	}
	for _, a := range sdAlphabet {
		for _, b := range sdAlphabet {
			units = append(units, []byte{a, b})
		}
	}
	var wg sync.WaitGroup
	ch := make(chan []byte)
	for w := 0; w < workers; w++ {
		wg.Add(1)
		go func() {
			defer wg.Done()
			for u := range ch {
				var rec func(s []byte)
				rec = func(s []byte) {
					sdOneString(out, s)
					if len(s) >= maxLen {
						return
					}
					for _, a := range sdAlphabet {
						rec(append(append([]byte{}, s...), a))
					}
				}
				if len(u) < 2 {
					sdOneString(out, u)
				} else if len(u) <= maxLen {
					rec(u)
				}
			}
		}()
	}
	for _, u := range units {
		if len(u) <= maxLen {
			ch <- u
		}
	}
	close(ch)
	wg.Wait()
}

func sdOneString(out *vk.Out, s []byte) {
	frames := [][]byte{append([]byte{}, s...)}
	probe := sdRun("exhaustive", frames, 0, "none")
	if len(probe.Outs) == 1 && probe.Outs[0] == "more" {
		// pending: complete it with arbitrary frames (up to 4), so that the count is exercised
		for i := 0; i < 4; i++ {
			frames = append(frames, sdFillFrames[i%len(sdFillFrames)])
		}
		sdAllFamilies(out, "exhaustive", frames, 0)
		// and with a limit of 1 attachment
		out.Put(sdRun("exhaustive", frames, 1, "none"))
		return
	}
	out.Put(probe)
	if probe.Hdr != nil {
		fams := sdFamilies[1:]
		if len(s) >= 3 {
			fams = sdFamilies[1:5] // the families named by the property; all nine run in corpus, scan and mutate
		}
		for _, f := range fams {
			out.Put(sdRun("exhaustive", frames, 0, f.name))
		}
	}
}

// sdScan: volume mode.  Every string up to maxLen through Add (+ completion of pending packets)
// and every family's decode, but only rows that show a panic, a packet still pending after its
// completion frames, or a finished packet with a wrong frame count are emitted (for the Coq
// oracle to judge), plus one summary row {"suite":"scan-summary","n":...}.
func sdScan(out *vk.Out, maxLen int, workers int) {
	var total, finished, pending int64
	var mu sync.Mutex
	check := func(c sdCase) {
		bad := c.Dec == "panic"
		for _, o := range c.Outs {
			if o == "panic" {
				bad = true
			}
		}
		if c.Hdr != nil && int64(len(c.Frames)) != 1+c.Hdr.Att {
			bad = true
		}
		mu.Lock()
		total++
		if c.Hdr != nil {
			finished++
		} else if n := len(c.Outs); n > 0 && c.Outs[n-1] == "more" {
			pending++
			bad = true // the oracle decides whether the wait is legitimate
		}
		mu.Unlock()
		if bad {
			c.Suite = "scan"
			out.Put(c)
		}
	}
	one := func(s []byte) {
		frames := [][]byte{append([]byte{}, s...)}
		probe := sdRun("scan", frames, 0, "none")
		if len(probe.Outs) == 1 && probe.Outs[0] == "more" {
			for i := 0; i < 4; i++ {
				frames = append(frames, sdFillFrames[i%len(sdFillFrames)])
			}
			probe = sdRun("scan", frames, 0, "none")
		}
		check(probe)
		if probe.Hdr != nil {
			for _, f := range sdFamilies[1:] {
				check(sdRun("scan", frames, 0, f.name))
			}
		}
	}
	var wg sync.WaitGroup
	ch := make(chan []byte, 64)
	for w := 0; w < workers; w++ {
		wg.Add(1)
		go func() {
			defer wg.Done()
			for u := range ch {
				var rec func(s []byte)
				rec = func(s []byte) {
					one(s)
					if len(s) >= maxLen {
						return
					}
					for _, a := range sdAlphabet {
						rec(append(append([]byte{}, s...), a))
					}
				}
				if len(u) < 2 {
					one(u)
				} else {
					rec(u)
				}
			}
		}()
	}
	ch <- []byte{}
	for _, a := range sdAlphabet {
		if maxLen >= 1 {
			ch <- []byte{a}
		}
	}
	if maxLen >= 2 {
		for _, a := range sdAlphabet {
			for _, b := range sdAlphabet {
				ch <- []byte{a, b}
			}
		}
	}
	close(ch)
	wg.Wait()
	out.Put(map[string]any{"suite": "scan-summary", "n": total, "finished": finished, "pending": pending, "maxlen": maxLen})
}

// ---- generated handler parameter types
//
// Types built by reflection: leaves {any, Binary, string, int, map[string]any}; constructors
// map[string]T, []T, struct{F T; G any}, *T; nested to the given depth.  Per type, JSON documents
// that follow the type's structure with a placeholder-shaped object put at nesting level
// 0,1,2,... (in range), and out-of-range / negative ones at the upper levels; `any` positions keep
// nesting objects until the target level is reached, Binary leaves hold an in-range placeholder.
type sdGenType struct {
	name string
	t    reflect.Type
}

func sdGenTypes(depth int) []sdGenType {
	anyT := reflect.TypeOf((*any)(nil)).Elem()
	leaves := []sdGenType{
		{"any", anyT}, {"Binary", reflect.TypeOf(Binary0{})}, {"string", reflect.TypeOf("")},
		{"int", reflect.TypeOf(0)}, {"map[string]any", reflect.TypeOf(map[string]any{})},
	}
	level := leaves
	all := append([]sdGenType{}, leaves...)
	for d := 0; d < depth; d++ {
		var next []sdGenType
		for _, e := range level {
			next = append(next,
				sdGenType{"map[string]" + e.name, reflect.MapOf(reflect.TypeOf(""), e.t)},
				sdGenType{"[]" + e.name, reflect.SliceOf(e.t)},
				sdGenType{"struct{F " + e.name + "; G any}", reflect.StructOf([]reflect.StructField{
					{Name: "F", Type: e.t}, {Name: "G", Type: anyT}})},
				sdGenType{"*" + e.name, reflect.PointerTo(e.t)},
			)
		}
		all = append(all, next...)
		level = next
	}
	return all
}

var sdBinaryType = reflect.TypeOf(Binary0{})

func sdGenJSON(t reflect.Type, d, target int, ph string) string {
	if d == target {
		return ph
	}
	const okPh = `{"_placeholder":true,"num":0}`
	switch t.Kind() {
	case reflect.Interface:
		if d < target {
			return `{"a":` + sdGenJSON(t, d+1, target, ph) + `,"z":1}`
		}
		return `1`
	case reflect.Map:
		return `{"k":` + sdGenJSON(t.Elem(), d+1, target, ph) + `,"j":` + sdGenJSON(t.Elem(), d+1, target, ph) + `}`
	case reflect.Slice:
		if t == sdBinaryType {
			return okPh
		}
		return `[` + sdGenJSON(t.Elem(), d+1, target, ph) + `,` + sdGenJSON(t.Elem(), d+1, target, ph) + `]`
	case reflect.Struct:
		return `{"F":` + sdGenJSON(t.Field(0).Type, d+1, target, ph) + `,"G":` + sdGenJSON(t.Field(1).Type, d+1, target, ph) + `}`
	case reflect.Ptr:
		return sdGenJSON(t.Elem(), d, target, ph)
	case reflect.String:
		return `"s"`
	}
	return `1`
}

func sdTypesMode(out *vk.Out, depth int, sample int, seed uint64) {
	types := sdGenTypes(depth)
	full := sdGenTypes(depth - 1)
	pickd := map[int]bool{}
	if sample > 0 && len(types)-len(full) > sample {
		r := vk.NewRand(seed)
		for len(pickd) < sample {
			pickd[len(full)+r.Intn(len(types)-len(full))] = true
		}
	}
	for i, ty := range types {
		if i >= len(full) && len(pickd) > 0 && !pickd[i] {
			continue
		}
		seen := map[string]bool{}
		emit := func(head string, doc string) {
			if seen[head+doc] {
				return
			}
			seen[head+doc] = true
			frames := [][]byte{[]byte(head + doc + `]`), []byte("ATT"), []byte("X")}
			out.Put(sdRunTypes("types", frames, 0, ty.name, []reflect.Type{ty.t}))
		}
		for target := 0; target <= depth+2; target++ {
			emit(`51-["ev",`, sdGenJSON(ty.t, 0, target, `{"_placeholder":true,"num":0}`))
		}
		emit(`51-["ev",`, sdGenJSON(ty.t, 0, 1, `{"num":1,"_placeholder":true}`))
		emit(`51-["ev",`, sdGenJSON(ty.t, 0, 2, `{"_placeholder":true,"num":-1}`))
		emit(`61-4[`, sdGenJSON(ty.t, 0, 1, `{"_placeholder":true,"num":0}`))
		emit(`61-4[`, sdGenJSON(ty.t, 0, 2, `{"_placeholder":true,"num":0}`))
	}
}

// ---- grammar-aware mutations

type sdGen struct{ r *vk.Rand }

func (g *sdGen) pick(xs ...string) string { return xs[g.r.Intn(len(xs))] }

func (g *sdGen) num(natt int) string {
	switch g.r.Intn(14) {
	case 0:
		return "-1"
	case 1:
		return "-5"
	case 2:
		return strconv.Itoa(natt)
	case 3:
		return strconv.Itoa(natt + 1)
	case 4:
		return "9223372036854775807"
	case 5:
		return "1e300"
	case 6:
		return "-9223372036854775808"
	case 7:
		return "0.5"
	case 8:
		return `"0"`
	case 9:
		return "null"
	default:
		if natt == 0 {
			return "0"
		}
		return strconv.Itoa(g.r.Intn(natt))
	}
}

func (g *sdGen) placeholder(natt int) string {
	n := g.num(natt)
	switch g.r.Intn(8) {
	case 0:
		return `{"num":` + n + `,"_placeholder":true}`
	case 1:
		return `{"_placeholder":false,"num":` + n + `}`
	case 2:
		return `{"_placeholder":true,"num":` + n + `,"x":1}`
	default:
		return `{"_placeholder":true,"num":` + n + `}`
	}
}

// arg builds one JSON argument suited to the family (placeholders where the family decodes them).
func (g *sdGen) arg(fam string, natt int) string {
	ph := func() string { return g.placeholder(natt) }
	switch fam {
	case "bin":
		return ph()
	case "map", "any":
		switch g.r.Intn(4) {
		case 0:
			return `{"a":` + ph() + `}`
		case 1:
			return `{"a":` + ph() + `,"b":{"c":` + ph() + `},"d":[` + ph() + `],"e":1}`
		case 2:
			return `{"a":{"b":{"c":` + ph() + `}}}`
		default:
			return `{"z":` + ph() + `,"a":` + ph() + `}`
		}
	case "struct":
		return `{"B":` + ph() + `,"M":{"k":` + ph() + `},"N":3,"P":` + ph() + `}`
	case "mapbin":
		return `{"a":` + ph() + `,"b":` + ph() + `}`
	case "slicebin":
		return `[` + ph() + `,` + ph() + `]`
	case "str":
		return `"s"`
	case "nested":
		return `{"k":` + ph() + `,"j":{"x":` + ph() + `}}`
	}
	return ph()
}

func (g *sdGen) packet(fam string) [][]byte {
	natt := g.r.Intn(4)
	binary := natt > 0 || g.r.Intn(4) == 0
	isAck := g.r.Intn(5) == 0
	var sb strings.Builder
	typ := "2"
	switch {
	case binary && isAck:
		typ = "6"
	case binary:
		typ = "5"
	case isAck:
		typ = "3"
	}
	sb.WriteString(typ)
	if binary {
		// attachment count, sometimes wrong
		switch g.r.Intn(12) {
		case 0:
			sb.WriteString(strconv.Itoa(natt + 1))
		case 1:
			sb.WriteString("18446744073709551615")
		case 2:
			sb.WriteString("9223372036854775808")
		case 3:
			sb.WriteString("18446744073709551616")
		case 4:
			sb.WriteString("")
		case 5:
			sb.WriteString("0" + strconv.Itoa(natt))
		case 6:
			if natt > 0 {
				sb.WriteString(strconv.Itoa(natt - 1))
			} else {
				sb.WriteString("0")
			}
		default:
			sb.WriteString(strconv.Itoa(natt))
		}
		if g.r.Intn(15) != 0 {
			sb.WriteString("-")
		}
	}
	switch g.r.Intn(6) {
	case 0:
		sb.WriteString("/nsp,")
	case 1:
		sb.WriteString("/nsp") // no comma
	case 2:
		sb.WriteString(`/a"b\,`)
	}
	switch g.r.Intn(6) {
	case 0:
		sb.WriteString("12")
	case 1:
		sb.WriteString("18446744073709551615")
	case 2:
		sb.WriteString("18446744073709551616")
	}
	var args []string
	if !isAck {
		args = append(args, g.pick(`"ev"`, `"e\"v"`, `"a\\"`, `""`, `"ev"`, `"ev"`))
	}
	nargs := len(sdFamily(fam))
	if g.r.Intn(8) == 0 {
		nargs = g.r.Intn(3)
	}
	for i := 0; i < nargs; i++ {
		f := fam
		if fam == "binmap" {
			f = []string{"bin", "map"}[i%2]
		}
		args = append(args, g.arg(f, natt))
	}
	sb.WriteString("[" + strings.Join(args, ",") + "]")
	head := []byte(sb.String())
	// byte-level mutations of the head
	switch g.r.Intn(10) {
	case 0: // truncate
		if len(head) > 1 {
			head = head[:1+g.r.Intn(len(head)-1)]
		}
	case 1: // flip a byte to a protocol-significant one
		head[g.r.Intn(len(head))] = sdAlphabet[g.r.Intn(len(sdAlphabet))]
	case 2: // delete a byte
		i := g.r.Intn(len(head))
		head = append(append([]byte{}, head[:i]...), head[i+1:]...)
	case 3: // duplicate a byte
		i := g.r.Intn(len(head))
		head = append(append(append([]byte{}, head[:i+1]...), head[i]), head[i+1:]...)
	}
	frames := [][]byte{head}
	nf := natt
	if g.r.Intn(6) == 0 {
		nf = g.r.Intn(5)
	}
	for i := 0; i < nf+2; i++ { // always offer more frames than needed: the run stops by itself
		if g.r.Intn(8) == 0 {
			frames = append(frames, []byte(`2["text"]`)) // text where binary is expected
		} else {
			frames = append(frames, bytes.Repeat([]byte{byte(65 + i)}, 1+g.r.Intn(3)))
		}
	}
	return frames
}

func sdMutate(out *vk.Out, seed uint64, n int) {
	g := &sdGen{r: vk.NewRand(seed)}
	for i := 0; i < n; i++ {
		fam := sdFamilies[g.r.Intn(len(sdFamilies))].name
		frames := g.packet(fam)
		maxAtt := 0
		if g.r.Intn(5) == 0 {
			maxAtt = 1 + g.r.Intn(3)
		}
		out.Put(sdRun("mutate", frames, maxAtt, fam))
	}
}

// ---- corpus: the inputs behind the C10 findings and boundary values
func sdCorpus(out *vk.Out) {
	B := func(ss ...string) [][]byte {
		r := [][]byte{}
		for _, s := range ss {
			r = append(r, []byte(s))
		}
		return r
	}
	cases := [][][]byte{
		B("0/abc"), B("0/abc,"), B("0/"), B("2/a"), B("51-/x"), B("0/,"), B("0,"),
		B(`51-["e",{"_placeholder":true,"num":-5}]`, "BUF", "X"),
		B(`51-["e",{"x":{"_placeholder":true,"num":-5}}]`, "BUF", "X"),
		B(`51-["e",{"_placeholder":true,"num":-1}]`, "BUF", "X"),
		B(`51-["e",{"x":{"_placeholder":true,"num":-1}}]`, "BUF", "X"),
		B(`51-["e",{"_placeholder":true,"num":9223372036854775807}]`, "BUF", "X"),
		B(`51-["e",{"x":{"_placeholder":true,"num":1e300}}]`, "BUF", "X"),
		B(`51-["e",{"x":{"_placeholder":true,"num":-1e300}}]`, "BUF", "X"),
		B(`51-["e",{"_placeholder":true,"num":0}]`, "BUF", "X"),
		B(`51-["e",{"_placeholder":true,"num":1}]`, "BUF", "X"),
		B(`51-["e",{"x":{"_placeholder":true,"num":0}}]`, "BUF", "X"),
		B(`51-["e",{"x":{"num":0,"_placeholder":true}}]`, "BUF", "X"),
		B(`51-["e",{"x":{"_placeholder":true,"num":1}}]`, "BUF", "X"),
		B(`52-["e",{"a":{"_placeholder":true,"num":1},"b":{"_placeholder":true,"num":0}}]`, "B0", "B1", "X"),
		B(`52-["e",[{"_placeholder":true,"num":1},{"_placeholder":true,"num":0}]]`, "B0", "B1", "X"),
		B(`51-["e",{"B":{"_placeholder":true,"num":0},"M":{"k":{"_placeholder":true,"num":0}},"P":{"_placeholder":true,"num":0}}]`, "B0", "X"),
		B(`61-[{"_placeholder":true,"num":0}]`, "B0", "X"),
		B(`61-7[{"_placeholder":true,"num":-3}]`, "B0", "X"),
		B(`518446744073709551615-["e"]`, "A", "B", "C"),
		B(`59223372036854775808-["e"]`, "A", "B", "C"),
		B(`59223372036854775807-["e"]`, "A", "B", "C"),
		B(`518446744073709551616-["e"]`, "A"),
		B(`50-["e"]`, "A"), B(`5-["e"]`, "A"), B(`51-`, "A"), B(`61-`, "A"), B(`5`, "A"), B(`51`, "A"),
		B(`2["`), B(`2"`), B(`2[`), B(`2`), B(`2""`), B(`2"\"`), B(`2["a\\"]`), B(`2["a\"]`), B(`2["a","b"]`),
		B(`2/n,18446744073709551615["e"]`), B(`2/n,18446744073709551616["e"]`), B(`212["e",1,2]`),
		B(`3`), B(`3[]`), B(`31[1]`), B(`1`), B(`1/n,`), B(`4{"message":"x"}`), B(`4"x"`), B(`0{"sid":"s"}`), B(`0/n,{"sid":"s"}`),
		B(`51-["e",{"k":{"_placeholder":true,"num":0}}]`, "BUF", "X"),
		B(`51-["e",{"k":{"_placeholder":true,"num":0},"j":{"a":{"_placeholder":true,"num":0}}}]`, "BUF", "X"),
		B(`61-3[{"k":{"_placeholder":true,"num":0}}]`, "BUF", "X"),
		B(`31`), B(`2/n,7`), B(`312`), B(`61-5`, "A"), B(`0/n,5`),
		B(``), B(`7`), B(`/`), B(`a`), B("\x00"), B("2\xff\"\xfe\""),
	}
	for _, fr := range cases {
		for _, f := range sdFamilies {
			out.Put(sdRun("corpus", fr, 0, f.name))
		}
		out.Put(sdRun("corpus", fr, 1, "bin"))
	}
}

func siodecodeMain(args []string) error {
	fs := flag.NewFlagSet("siodecode", flag.ExitOnError)
	seed := fs.Uint64("seed", 1, "")
	mode := fs.String("mode", "corpus", "corpus|exhaustive|scan|mutate|live")
	maxLen := fs.Int("maxlen", 3, "max string length (exhaustive)")
	n := fs.Int("n", 1000, "number of generated cases (mutate)")
	workers := fs.Int("workers", 8, "")
	outp := fs.String("out", "-", "")
	classes := fs.String("classes", "", "live: comma separated class indexes (default all)")
	par := fs.Int("par", 1, "live: classes run concurrently")
	depth := fs.Int("depth", 2, "types: nesting depth of the generated parameter types (deepest level sampled with -n > 0)")
	fs.Parse(args)
	out, err := vk.NewOut(*outp)
	if err != nil {
		return err
	}
	defer out.Close()
	switch *mode {
	case "corpus":
		sdCorpus(out)
	case "exhaustive":
		sdExhaustive(out, *maxLen, *workers)
	case "types":
		sdTypesMode(out, *depth, *n, *seed)
	case "scan":
		sdScan(out, *maxLen, *workers)
	case "mutate":
		sdMutate(out, *seed, *n)
	case "live":
		return sdLive(out, *classes, *par)
	default:
		return fmt.Errorf("unknown mode %q", *mode)
	}
	return nil
}

// ---------------------------------------------------------------- live rig
//
// A real sio.Server on 127.0.0.1:0 with typed handlers, one healthy Go client (Manager) that
// must stay usable, and per class a raw protocol peer (the repo's engine.io client) that joins
// "/" and then sends the class's frames verbatim.  Observed per class: what the server did with
// the frames (handler entered / socket error handler / connection closed by the server), whether
// the healthy connection still completes an ack round trip afterwards, and whether a later
// connection can be opened and used.  A crash of the process ends the engine: the driver sees
// the last "LIVE-START <i>" line and reports that class.

type sdLiveClass struct {
	Name   string
	Fam    string   // handler family that the event name selects on the server
	Frames []string // frames sent after CONNECT; a frame starting with "b:" is sent as binary
}

var sdLiveClasses = []sdLiveClass{
	{"valid-binary", "bin", []string{`51-["bin",{"_placeholder":true,"num":0}]`, "b:ABC"}},
	{"valid-map", "map", []string{`51-["map",{"a":{"_placeholder":true,"num":0}}]`, "b:ABC"}},
	{"nsp-without-comma", "none", []string{`2/abc`}},
	{"connect-nsp-without-comma", "none", []string{`0/abc`}},
	{"invalid-type", "none", []string{`9["none"]`}},
	{"empty-frame", "none", []string{``}},
	{"count-wraps-negative", "bin", []string{`518446744073709551615-["bin",{"_placeholder":true,"num":0}]`}},
	{"count-2^63", "bin", []string{`59223372036854775808-["bin",{"_placeholder":true,"num":0}]`}},
	{"count-not-a-number", "bin", []string{`5x-["bin"]`}},
	{"negative-placeholder-typed", "bin", []string{`51-["bin",{"_placeholder":true,"num":-5}]`, "b:ABC"}},
	{"negative-placeholder-map", "map", []string{`51-["map",{"a":{"_placeholder":true,"num":-5}}]`, "b:ABC"}},
	{"placeholder-minus-one", "bin", []string{`51-["bin",{"_placeholder":true,"num":-1}]`, "b:ABC"}},
	{"placeholder-maxint", "bin", []string{`51-["bin",{"_placeholder":true,"num":9223372036854775807}]`, "b:ABC"}},
	{"placeholder-1e300-map", "map", []string{`51-["map",{"a":{"_placeholder":true,"num":1e300}}]`, "b:ABC"}},
	{"placeholder-too-large", "bin", []string{`51-["bin",{"_placeholder":true,"num":1}]`, "b:ABC"}},
	{"placeholder-in-struct", "struct", []string{`51-["struct",{"B":{"_placeholder":true,"num":-2},"M":{"k":{"_placeholder":true,"num":0}}}]`, "b:ABC"}},
	{"placeholder-in-any", "any", []string{`51-["any",{"a":{"_placeholder":true,"num":-5}}]`, "b:ABC"}},
	{"mapbin-valid", "mapbin", []string{`51-["mapbin",{"a":{"_placeholder":true,"num":0}}]`, "b:ABC"}},
	{"nested-typed-map-placeholder", "nested", []string{`51-["nested",{"k":{"_placeholder":true,"num":0}}]`, "b:ABC"}},
	{"nested-typed-map-out-of-range", "nested", []string{`51-["nested",{"k":{"_placeholder":true,"num":7},"j":{"x":{"_placeholder":true,"num":-2}}}]`, "b:ABC"}},
	{"truncated-json", "bin", []string{`2["bin",`}},
	{"truncated-name", "none", []string{`2["no`}},
	{"text-where-binary-expected", "bin", []string{`51-["bin",{"_placeholder":true,"num":0}]`, `2["none"]`}},
	{"binary-without-header", "none", []string{"b:\x00\x01\x02"}},
	{"ack-unknown-id", "none", []string{`3999[1]`}},
	{"ack-without-id", "none", []string{`3[1]`}},
	{"binary-ack-negative", "none", []string{`61-7[{"_placeholder":true,"num":-3}]`, "b:ABC"}},
	{"wrong-arg-type", "str", []string{`2["str",{"a":1}]`}},
	{"second-connect", "none", []string{`0`}},
}

type sdLiveRow struct {
	Suite   string  `json:"suite"`
	Class   string  `json:"class"`
	Index   int     `json:"index"`
	Fam     string  `json:"fam"`
	Frames  [][]int `json:"frames"`
	Handler bool    `json:"handler"` // the event handler was entered
	ErrH    bool    `json:"errh"`    // the socket's error handler was invoked
	Closed  bool    `json:"closed"`  // the server closed the raw peer's connection
	Healthy bool    `json:"healthy"` // the healthy connection completed an ack round trip afterwards
	Later   bool    `json:"later"`   // a later connection connected and completed an ack round trip
	Dec     sdCase  `json:"dec"`     // the same frames through Parser.Add + decode (recorded answers)
	Note    string  `json:"note,omitempty"`
}

type sdLiveRig struct {
	mu      sync.Mutex
	cond    *sync.Cond
	handler map[string]int // sid -> handler entries
	errh    map[string]int
	srv     *sio.Server
	ts      *httptest.Server
}

func (r *sdLiveRig) bump(m map[string]int, sid string) {
	r.mu.Lock()
	m[sid]++
	r.mu.Unlock()
	r.cond.Broadcast()
}

func (r *sdLiveRig) wait(d time.Duration, pred func() bool) bool {
	deadline := time.Now().Add(d)
	for {
		r.mu.Lock()
		ok := pred()
		r.mu.Unlock()
		if ok {
			return true
		}
		if time.Now().After(deadline) {
			return false
		}
		time.Sleep(5 * time.Millisecond)
	}
}

func sdNewLiveRig() *sdLiveRig {
	r := &sdLiveRig{handler: map[string]int{}, errh: map[string]int{}}
	r.cond = sync.NewCond(&r.mu)
	cfg := &sio.ServerConfig{}
	cfg.EIO.WebSocketAcceptOptions = &websocket.AcceptOptions{CompressionMode: websocket.CompressionDisabled}
	r.srv = sio.NewServer(cfg)
	r.srv.OnConnection(func(socket sio.ServerSocket) {
		sid := string(socket.ID())
		in := func() { r.bump(r.handler, sid) }
		socket.OnEvent("none", func() { in() })
		socket.OnEvent("bin", func(b sio.Binary) { in() })
		socket.OnEvent("map", func(m map[string]any) { in() })
		socket.OnEvent("any", func(a any) { in() })
		socket.OnEvent("struct", func(s sdStruct) { in() })
		socket.OnEvent("mapbin", func(m map[string]sio.Binary) { in() })
		socket.OnEvent("str", func(s string) { in() })
		socket.OnEvent("nested", func(m map[string]map[string]any) { in() })
		socket.OnEvent("echo", func(s string, ack func(string)) { ack(s) })
		socket.OnError(func(err error) { r.bump(r.errh, sid) })
	})
	if err := r.srv.Run(); err != nil {
		panic(err)
	}
	r.ts = httptest.NewServer(r.srv)
	return r
}

// sdEcho: an ack round trip on a Go client socket.
func sdEcho(s sio.ClientSocket, tag string, d time.Duration) bool {
	done := make(chan string, 1)
	s.Emit("echo", tag, func(got string) {
		select {
		case done <- got:
		default:
		}
	})
	select {
	case got := <-done:
		return got == tag
	case <-time.After(d):
		return false
	}
}

func sdDialHealthy(url string) (*sio.Manager, sio.ClientSocket, bool) {
	cfg := &sio.ManagerConfig{NoReconnection: true}
	cfg.EIO.Transports = []string{"websocket"}
	cfg.EIO.WebSocketDialOptions = &websocket.DialOptions{CompressionMode: websocket.CompressionDisabled}
	m := sio.NewManager(url, cfg)
	s := m.Socket("/", nil)
	connected := make(chan struct{}, 1)
	s.OnConnect(func() {
		select {
		case connected <- struct{}{}:
		default:
		}
	})
	s.Connect()
	select {
	case <-connected:
		return m, s, true
	case <-time.After(10 * time.Second):
		return m, s, false
	}
}

func sdLiveFrame(f string) ([]byte, bool) {
	if strings.HasPrefix(f, "b:") {
		s, err := strconv.Unquote(`"` + f[2:] + `"`)
		if err != nil {
			s = f[2:]
		}
		return []byte(s), true
	}
	return []byte(f), false
}

// sdLiveEmit writes the row to -out and, unbuffered, to stdout (a later class may end the process).
func sdLiveEmit(out *vk.Out, row sdLiveRow) {
	out.Put(row)
	if b, err := json.Marshal(row); err == nil {
		fmt.Printf("LIVE-ROW %s\n", b)
	}
}

func sdLive(out *vk.Out, classes string, par int) error {
	if par < 1 {
		par = 1
	}
	want := map[int]bool{}
	if classes != "" {
		for _, x := range strings.Split(classes, ",") {
			i, err := strconv.Atoi(strings.TrimSpace(x))
			if err != nil {
				return err
			}
			want[i] = true
		}
	}
	r := sdNewLiveRig()
	defer r.ts.Close()
	hm, hs, ok := sdDialHealthy(r.ts.URL)
	if !ok {
		return fmt.Errorf("live: the healthy client could not connect")
	}
	defer hm.Close()
	if !sdEcho(hs, "warmup", 10*time.Second) {
		return fmt.Errorf("live: the healthy client got no ack before any malformed traffic")
	}
	fmt.Printf("LIVE-CLASSES %d\n", len(sdLiveClasses))
	var wg sync.WaitGroup
	sem := make(chan struct{}, par)
	var echoMu sync.Mutex
	for i, cl := range sdLiveClasses {
		if len(want) > 0 && !want[i] {
			continue
		}
		i, cl := i, cl
		wg.Add(1)
		sem <- struct{}{}
		go func() {
			defer wg.Done()
			defer func() { <-sem }()
			sdLiveOne(out, r, hs, &echoMu, i, cl)
		}()
	}
	wg.Wait()
	return nil
}

func sdLiveOne(out *vk.Out, r *sdLiveRig, hs sio.ClientSocket, echoMu *sync.Mutex, i int, cl sdLiveClass) {
	{
		fmt.Printf("LIVE-START %d %s\n", i, cl.Name)
		row := sdLiveRow{Suite: "live", Class: cl.Name, Index: i, Fam: cl.Fam, Frames: [][]int{}}
		var frames [][]byte
		for _, f := range cl.Frames {
			b, _ := sdLiveFrame(f)
			frames = append(frames, b)
			row.Frames = append(row.Frames, vk.Ints(b))
		}
		row.Dec = sdRun("live", frames, 0, cl.Fam)

		// raw peer
		var (
			rmu    sync.Mutex
			sid    string
			closed bool
			rp     = jsonparser.NewCreator(0, stdjson.New())()
		)
		cb := &eio.Callbacks{
			OnPacket: func(packets ...*eioparser.Packet) {
				rmu.Lock()
				defer rmu.Unlock()
				for _, p := range packets {
					if p.Type != eioparser.PacketTypeMessage {
						continue
					}
					func() {
						defer func() { recover() }()
						rp.Add(p.Data, func(h *parser.PacketHeader, ev string, decode parser.Decode) {
							if h.Type == parser.PacketTypeConnect && sid == "" {
								var v struct {
									SID string `json:"sid"`
								}
								if vals, err := decode(reflect.TypeOf(&v)); err == nil && len(vals) == 1 {
									if p, ok := vals[0].Interface().(*struct {
										SID string `json:"sid"`
									}); ok {
										sid = p.SID
									}
								}
							}
						})
					}()
				}
			},
			OnClose: func(reason eio.Reason, err error) {
				rmu.Lock()
				closed = true
				rmu.Unlock()
			},
		}
		ecfg := &eio.ClientConfig{Transports: []string{"websocket"}}
		ecfg.WebSocketDialOptions = &websocket.DialOptions{CompressionMode: websocket.CompressionDisabled}
		sock, err := eio.Dial(r.ts.URL, cb, ecfg)
		if err != nil {
			row.Note = "raw dial failed: " + err.Error()
			sdLiveEmit(out, row)
			return
		}
		sock.Send(&eioparser.Packet{Type: eioparser.PacketTypeMessage, Data: []byte("0")})
		gotSid := r.wait(10*time.Second, func() bool { rmu.Lock(); defer rmu.Unlock(); return sid != "" })
		if !gotSid {
			row.Note = "raw peer got no CONNECT reply"
		}
		rmu.Lock()
		mySid := sid
		rmu.Unlock()
		for _, f := range cl.Frames {
			b, isBin := sdLiveFrame(f)
			sock.Send(&eioparser.Packet{Type: eioparser.PacketTypeMessage, IsBinary: isBin, Data: b})
		}
		// wait until the server reacted in one of the three ways (or give up after a grace period)
		reacted := func() bool {
			rmu.Lock()
			c := closed
			rmu.Unlock()
			return c || r.handler[mySid] > 0 || r.errh[mySid] > 0
		}
		r.wait(3*time.Second, reacted)
		if n := len(row.Dec.Outs); n > 0 && row.Dec.Outs[n-1] == "err" {
			// Add rejected the frame: the close follows the error handlers on another goroutine
			r.wait(3*time.Second, func() bool { rmu.Lock(); defer rmu.Unlock(); return closed })
		} else {
			time.Sleep(50 * time.Millisecond)
		}
		r.mu.Lock()
		row.Handler = r.handler[mySid] > 0
		row.ErrH = r.errh[mySid] > 0
		r.mu.Unlock()
		rmu.Lock()
		row.Closed = closed
		rmu.Unlock()

		echoMu.Lock()
		row.Healthy = sdEcho(hs, fmt.Sprintf("after-%d", i), 10*time.Second)
		echoMu.Unlock()
		lm, ls, lok := sdDialHealthy(r.ts.URL)
		row.Later = lok && sdEcho(ls, fmt.Sprintf("later-%d", i), 10*time.Second)
		lm.Close()
		sock.Close()
		sdLiveEmit(out, row)
		fmt.Printf("LIVE-DONE %d\n", i)
	}
}
