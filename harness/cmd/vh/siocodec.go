package main

import (
	"encoding/json"
	"flag"
	"fmt"
	"io"
	"reflect"
	"sort"
	"strconv"
	"strings"
	"sync"
	"time"

	sio "github.com/karagenc/socket.io-go"
	"github.com/karagenc/socket.io-go/parser"
	jsonparser "github.com/karagenc/socket.io-go/parser/json"
	"github.com/karagenc/socket.io-go/parser/json/serializer"
	"github.com/karagenc/socket.io-go/parser/json/serializer/stdjson"

	"verifharness/vk"
)

// siocodec: runs the real Socket.IO parser (jsonparser.NewCreator(0, stdjson)) on generated packets.
// Per case: Encode -> frames, the caller's header and value after Encode, a second Encode of the
// same value with a fresh header, a third with the header object used first; the frames fed to a
// fresh parser with Add, and decode into the mirror types and into `any` parameters.
// -mode json: json.Marshal / json.Unmarshal on generated trees (validates the model's jprint/jparse).
func init() { register("siocodec", siocodecMain) }

type c9Bin = jsonparser.Binary

// Menu of struct types.
type c9tA struct {
	Name string `json:"name"`
	BinF c9Bin  `json:"bin"`
}
type c9tB struct {
	N int64   `json:"n"`
	P *c9tA   `json:"p"`
	L []c9Bin `json:"l"`
	S string  `json:"s<&>"`
}
type c9tC struct {
	V any            `json:"v"`
	M map[string]any `json:"m"`
	S []c9tA         `json:"s"`
	Q []*c9tA        `json:"q"`
}
type c9tD struct {
	X  bool       `json:"x"`
	I  c9tA       `json:"inner"`
	PB *c9Bin     `json:"pb"`
	SB sio.Binary `json:"sb"`
	LL [][]any    `json:"ll"`
	PP **c9tA     `json:"pp"`
	LS []string   `json:"ls"`
	LI []int64    `json:"li"`
	B  *bool      `json:"b"`
}

type c9gen struct {
	r    *vk.Rand
	nbin int
	prev [][]byte
}

var c9strMenu = []string{"", "a", "EVENT_NAME", "a\\", "\\", "\\\\", "a\"b", "\"", "x\\\"y\\", "<tag>&amp;", "line\nbreak\ttab\r", "\b\f\x01\x1f", " sep ", "héllo wörld", "日本語", "😀 emoji", "/slash", "[1,2]", "{\"_placeholder\":true}", "nul\x00byte", "del\x7f", "q'uote", "back\\slash\\n"}

func (g *c9gen) str() string {
	if g.r.Intn(4) == 0 {
		n := g.r.Intn(6)
		var sb strings.Builder
		for i := 0; i < n; i++ {
			switch g.r.Intn(6) {
			case 0:
				sb.WriteByte(byte(g.r.Intn(128)))
			case 1:
				sb.WriteRune(rune(0x80 + g.r.Intn(0x700)))
			case 2:
				sb.WriteRune(rune(0x800 + g.r.Intn(0xd000-0x800)))
			case 3:
				sb.WriteRune(rune(0x10000 + g.r.Intn(0x100000)))
			case 4:
				sb.WriteByte("\\\"/<>&'\n"[g.r.Intn(8)])
			default:
				sb.WriteByte(byte('a' + g.r.Intn(26)))
			}
		}
		return sb.String()
	}
	return c9strMenu[g.r.Intn(len(c9strMenu))]
}

// bin returns a binary leaf whose content is unique within the case.
// bin returns the bytes of a binary leaf. Boundary table first (high probability): nil, empty,
// one byte, a copy of an earlier leaf of the same packet (equal attachments), bytes that read like
// JSON / a placeholder; then random lengths.
func (g *c9gen) bin() []byte {
	g.nbin++
	switch g.r.Intn(12) {
	case 0:
		return nil
	case 1, 2:
		return []byte{}
	case 3:
		return []byte{byte(g.r.Intn(256))}
	case 4:
		if len(g.prev) > 0 {
			return append([]byte{}, g.prev[g.r.Intn(len(g.prev))]...)
		}
		return []byte{0}
	case 5:
		return []byte(`{"_placeholder":true,"num":0}`)
	case 6:
		return []byte("null")
	case 7:
		return []byte{0, 255, 10, 34, 92}
	}
	b := g.r.Bytes(g.r.Intn(40))
	g.prev = append(g.prev, b)
	return b
}

func (g *c9gen) i64(small bool) int64 {
	// small: the value also has to survive a float64 (decoding into `any`)
	table := []int64{0, 0, -1, 1, 1<<53 - 1, -(1<<53 - 1), 1 << 31, -(1 << 31), 1<<32 + 1, 255, -256}
	if !small {
		table = append(table, 1<<53, 1<<53+1, -(1 << 53), -(1<<53 + 1), 1<<63-1, -1<<63, 1<<62)
	}
	if g.r.Intn(3) != 0 {
		return table[g.r.Intn(len(table))]
	}
	if g.r.Bool() {
		return -int64(g.r.Intn(100000))
	}
	return int64(g.r.Intn(1 << 20))
}

func (g *c9gen) c9tA(bin bool) c9tA {
	return c9tA{Name: g.str(), BinF: c9Bin(g.bin())}
}

// c9noByValue: a struct held by value in a map is refused by Encode when it holds binary; outside
// the "hard" stream it is passed by pointer instead.
func c9noByValue(x any, hard bool) any {
	if hard || x == nil {
		return x
	}
	rv := reflect.ValueOf(x)
	if rv.Kind() == reflect.Struct {
		p := reflect.New(rv.Type())
		p.Elem().Set(rv)
		return p.Interface()
	}
	return x
}

// genAny returns a value for an `any` cell. d = remaining depth; bin = binary leaves allowed;
// hard = include the shapes Encode is known to refuse (binary behind a non-settable cell).
func (g *c9gen) genAny(d int, bin, hard bool) any {
	k := g.r.Intn(24)
	if d <= 0 && k >= 8 {
		k = g.r.Intn(8)
	}
	switch k {
	case 0:
		return nil
	case 1:
		return g.r.Bool()
	case 2:
		return g.i64(true)
	case 3:
		return int(g.i64(true))
	case 4, 5:
		return g.str()
	case 6, 7:
		if bin {
			return c9Bin(g.bin())
		}
		return g.str()
	case 8:
		if bin {
			return sio.Binary(g.bin())
		}
		return float64(g.r.Intn(1000))
	case 9, 10:
		n := g.r.Intn(4)
		l := make([]any, n)
		for i := range l {
			l[i] = g.genAny(d-1, bin, hard)
		}
		return l
	case 11, 12:
		n := g.r.Intn(4)
		m := map[string]any{}
		for i := 0; i < n; i++ {
			m[g.str()] = c9noByValue(g.genAny(d-1, bin, hard), hard)
		}
		return m
	case 13:
		if bin {
			a := g.c9tA(true)
			return &a
		}
		return &c9tB{N: g.i64(false), S: g.str(), L: []c9Bin{}}
	case 14:
		if bin {
			return g.c9tA(true) // struct by value in an interface
		}
		return c9tB{N: g.i64(false), S: g.str()}
	case 15:
		if bin {
			n := g.r.Intn(3)
			l := make([]c9Bin, n)
			for i := range l {
				l[i] = c9Bin(g.bin())
			}
			return l
		}
		return []string{g.str(), g.str()}
	case 16:
		b := &c9tB{N: g.i64(false), S: g.str()}
		if bin {
			if g.r.Bool() {
				a := g.c9tA(true)
				b.P = &a
			}
			n := g.r.Intn(3)
			b.L = make([]c9Bin, n)
			for i := range b.L {
				b.L[i] = c9Bin(g.bin())
			}
		} else {
			b.L = []c9Bin{}
		}
		return b
	case 17:
		c := &c9tC{M: map[string]any{}, S: []c9tA{}, Q: []*c9tA{}}
		if hard || !bin {
			c.V = g.genAny(d-1, bin, hard)
		} else {
			c.V = g.genAny(d-1, false, false)
		}
		n := g.r.Intn(3)
		for i := 0; i < n; i++ {
			c.M[g.str()] = c9noByValue(g.genAny(d-1, bin, hard), hard)
		}
		if bin {
			for i := g.r.Intn(3); i > 0; i-- {
				c.S = append(c.S, g.c9tA(true))
			}
			for i := g.r.Intn(3); i > 0; i-- {
				a := g.c9tA(true)
				c.Q = append(c.Q, &a)
			}
		}
		return c
	case 18:
		if !bin {
			return []any{[]any{g.str()}, map[string]any{g.str(): nil}}
		}
		dd := &c9tD{X: g.r.Bool(), I: g.c9tA(true), SB: sio.Binary(g.bin()), LL: [][]any{}, LS: []string{}, LI: []int64{g.i64(false), 7}}
		if g.r.Bool() {
			pb := c9Bin(g.bin())
			dd.PB = &pb
		}
		for i := g.r.Intn(3); i > 0; i-- {
			dd.LL = append(dd.LL, []any{g.genAny(d-2, bin, hard), g.str()})
		}
		if g.r.Bool() {
			a := g.c9tA(true)
			pa := &a
			dd.PP = &pa
		}
		if g.r.Bool() {
			t := g.r.Bool()
			dd.B = &t
		}
		return dd
	case 19:
		if bin {
			n := g.r.Intn(3)
			l := make([]*c9tA, n)
			for i := range l {
				a := g.c9tA(true)
				l[i] = &a
			}
			return l
		}
		return []int64{1, 2, 3}
	case 20:
		if bin {
			return map[string]c9Bin{g.str(): c9Bin(g.bin()), "k": c9Bin(g.bin())}
		}
		return map[string]any{"a": []any{1, "x"}}
	case 21:
		if bin && hard {
			a := g.c9tA(true)
			return map[string]any{"byval": a} // refused: struct by value as a map value
		}
		// zero values: unset Binary fields (nil), nil pointers / slices / maps, empty strings
		switch g.r.Intn(4) {
		case 0:
			return &c9tA{}
		case 1:
			return &c9tB{}
		case 2:
			return &c9tC{}
		default:
			return &c9tD{}
		}
	case 22:
		if bin {
			a := g.c9tA(true)
			return map[string]any{"p": &a, "l": []any{c9Bin(g.bin())}, "m": map[string]any{"x": c9Bin(g.bin())}}
		}
		return []any{}
	default:
		if bin && hard {
			// pointer to an interface: the Binary is behind three wrappers, neither hasBinary nor
			// deconstruct looks at it, the JSON encoder then writes its bytes as they are (refused
			// when they are not JSON, wrong frames when they are: finding binary-behind-deep-wrappers).
			// A nil Binary is not used here: written directly it marshals as null while an empty one
			// is refused, a distinction the model's Binary cell does not carry.
			b := g.bin()
			if b == nil {
				b = []byte{}
			}
			var x any = c9Bin(b)
			return &x
		}
		return g.str()
	}
}

// ---------------------------------------------------------------- conversion to the model's trees
type c9tree = any

func cints(b []byte) []int { return vk.Ints(b) }

var c9binIface = reflect.TypeOf((*interface{ SocketIOBinary() bool })(nil)).Elem()

func c9jsonName(f reflect.StructField) string {
	tag := f.Tag.Get("json")
	if i := strings.IndexByte(tag, ','); i >= 0 {
		tag = tag[:i]
	}
	if tag == "" {
		return f.Name
	}
	return tag
}

// c9minLeaf: smallest attachment index among the binary leaves below v (big if none).
func c9minLeaf(v reflect.Value, idx map[string]int) int {
	best := 1 << 30
	var walk func(v reflect.Value)
	walk = func(v reflect.Value) {
		switch v.Kind() {
		case reflect.Interface, reflect.Ptr:
			if !v.IsNil() {
				walk(v.Elem())
			}
		case reflect.Slice:
			if v.Type().Implements(c9binIface) {
				if i, ok := idx[string(v.Bytes())]; ok && i < best {
					best = i
				}
				return
			}
			for i := 0; i < v.Len(); i++ {
				walk(v.Index(i))
			}
		case reflect.Struct:
			for i := 0; i < v.NumField(); i++ {
				walk(v.Field(i))
			}
		case reflect.Map:
			it := v.MapRange()
			for it.Next() {
				walk(it.Value())
			}
		}
	}
	walk(v)
	return best
}

// c9toGV converts a Go value to the model's gv c9tree. idx gives the attachment index of each binary
// leaf (by content): map entries are listed in the order deconstructMap visited them.
func c9toGV(v reflect.Value, idx map[string]int) c9tree {
	switch v.Kind() {
	case reflect.Invalid:
		return []any{"n"}
	case reflect.Interface:
		if v.IsNil() {
			return []any{"n"}
		}
		return []any{"a", c9toGV(v.Elem(), idx)}
	case reflect.Ptr:
		if v.IsNil() {
			return []any{"n"}
		}
		return []any{"p", c9toGV(v.Elem(), idx)}
	case reflect.Bool:
		return []any{"b", v.Bool()}
	case reflect.Int, reflect.Int8, reflect.Int16, reflect.Int32, reflect.Int64:
		return []any{"i", strconv.FormatInt(v.Int(), 10)}
	case reflect.Uint, reflect.Uint8, reflect.Uint16, reflect.Uint32, reflect.Uint64:
		return []any{"i", strconv.FormatUint(v.Uint(), 10)}
	case reflect.Float64, reflect.Float32:
		f := v.Float()
		// beyond 2^53 a float64 no longer identifies the integer that was sent: outside the model
		if f == float64(int64(f)) && f < 1<<53 && f > -(1<<53) {
			return []any{"i", strconv.FormatInt(int64(f), 10)}
		}
		return []any{"f", f}
	case reflect.String:
		return []any{"s", cints([]byte(v.String()))}
	case reflect.Slice:
		if v.Type().Implements(c9binIface) {
			return []any{"B", cints(v.Bytes())}
		}
		if v.IsNil() {
			return []any{"n"}
		}
		if v.Type().Elem().Kind() == reflect.Uint8 {
			return []any{"Y", cints(v.Bytes())}
		}
		l := make([]any, v.Len())
		for i := range l {
			l[i] = c9toGV(v.Index(i), idx)
		}
		return []any{"l", l}
	case reflect.Struct:
		fs := []any{}
		for i := 0; i < v.NumField(); i++ {
			fs = append(fs, []any{cints([]byte(c9jsonName(v.Type().Field(i)))), c9toGV(v.Field(i), idx)})
		}
		return []any{"S", fs}
	case reflect.Map:
		if v.IsNil() {
			return []any{"n"}
		}
		type ent struct {
			k    string
			v    reflect.Value
			leaf int
		}
		es := []ent{}
		it := v.MapRange()
		for it.Next() {
			es = append(es, ent{it.Key().String(), it.Value(), c9minLeaf(it.Value(), idx)})
		}
		sort.Slice(es, func(i, j int) bool {
			if es[i].leaf != es[j].leaf {
				return es[i].leaf < es[j].leaf
			}
			return es[i].k < es[j].k
		})
		m := []any{}
		for _, e := range es {
			m = append(m, []any{cints([]byte(e.k)), c9toGV(e.v, idx)})
		}
		return []any{"m", m}
	}
	return []any{"?", v.Kind().String()}
}

// c9toJB converts a decoded value to its shape (JSON c9tree with binary leaves).
func c9toJB(v reflect.Value) c9tree {
	switch v.Kind() {
	case reflect.Invalid:
		return []any{"n"}
	case reflect.Interface, reflect.Ptr:
		if v.IsNil() {
			return []any{"n"}
		}
		return c9toJB(v.Elem())
	case reflect.Slice:
		if v.Type().Elem().Kind() == reflect.Uint8 {
			if v.IsNil() && !v.Type().Implements(c9binIface) {
				return []any{"n"}
			}
			return []any{"B", cints(v.Bytes())}
		}
		if v.IsNil() {
			return []any{"n"}
		}
		l := make([]any, v.Len())
		for i := range l {
			l[i] = c9toJB(v.Index(i))
		}
		return []any{"l", l}
	case reflect.Struct:
		fs := []any{}
		for i := 0; i < v.NumField(); i++ {
			fs = append(fs, []any{cints([]byte(c9jsonName(v.Type().Field(i)))), c9toJB(v.Field(i))})
		}
		return []any{"o", fs}
	case reflect.Map:
		if v.IsNil() {
			return []any{"n"}
		}
		keys := v.MapKeys()
		sort.Slice(keys, func(i, j int) bool { return keys[i].String() < keys[j].String() })
		m := []any{}
		for _, k := range keys {
			m = append(m, []any{cints([]byte(k.String())), c9toJB(v.MapIndex(k))})
		}
		return []any{"o", m}
	}
	t := c9toGV(v, nil).([]any)
	return t
}

var c9anyType = reflect.TypeOf((*any)(nil)).Elem()

// c9toTy: the model's handler type for a Go type (ok=false: outside the modelled fragment).
func c9toTy(t reflect.Type) (c9tree, bool) {
	if t.Implements(c9binIface) && t.Kind() == reflect.Slice {
		return "bin", true
	}
	switch t.Kind() {
	case reflect.Interface:
		return "any", t == c9anyType
	case reflect.Bool:
		return "bool", true
	case reflect.Int, reflect.Int64:
		return "int", true
	case reflect.String:
		return "str", true
	case reflect.Ptr:
		e, ok := c9toTy(t.Elem())
		return []any{"ptr", e}, ok
	case reflect.Slice:
		if t.Elem().Kind() == reflect.Uint8 {
			return "?", false
		}
		e, ok := c9toTy(t.Elem())
		return []any{"slice", e}, ok
	case reflect.Struct:
		fs := []any{}
		ok := true
		for i := 0; i < t.NumField(); i++ {
			e, o := c9toTy(t.Field(i).Type)
			ok = ok && o
			fs = append(fs, []any{cints([]byte(c9jsonName(t.Field(i)))), e})
		}
		return []any{"struct", fs}, ok
	case reflect.Map:
		if t.Key().Kind() == reflect.String && t.Elem() == c9anyType {
			return "map", true
		}
	}
	return "?", false
}

type c9hdrJ struct {
	T   int    `json:"t"`
	Nsp []int  `json:"nsp"`
	ID  string `json:"id"` // "" = nil
	Att int64  `json:"att"`
}

func c9hdrOut(h *parser.PacketHeader) c9hdrJ {
	id := ""
	if h.ID != nil {
		id = strconv.FormatUint(*h.ID, 10)
	}
	return c9hdrJ{int(h.Type), cints([]byte(h.Namespace)), id, int64(h.Attachments)}
}

type c9codecCase struct {
	Label   string   `json:"label"`
	H       c9hdrJ   `json:"h"`
	V       c9tree   `json:"v"` // nil = Encode(header, nil)
	Tys     []c9tree `json:"tys"`
	TysOK   bool     `json:"tysok"`
	Out     int      `json:"out"`
	Frames  [][]int  `json:"frames"`
	HAfter  c9hdrJ   `json:"hafter"`
	VAfter  c9tree   `json:"vafter"`
	Out2    int      `json:"out2"`
	Frames2 [][]int  `json:"frames2"`
	Out3    int      `json:"out3"`
	Frames3 [][]int  `json:"frames3"`
	Fin     []int    `json:"fin"`
	DH      *c9hdrJ  `json:"dh"`
	DName   []int    `json:"dname"`
	TypedOK bool     `json:"typedok"`
	Typed   []c9tree `json:"typed"`
	AnyOK   bool     `json:"anyok"`
	AnyD    []c9tree `json:"anyd"`
	Err     string   `json:"err"`
	NBin    int      `json:"nbin"`
}

func c9framesOut(bs [][]byte) [][]int {
	r := make([][]int, len(bs))
	for i, b := range bs {
		r[i] = cints(b)
	}
	return r
}

func c9safeEncode(p parser.Parser, h *parser.PacketHeader, v any) (bufs [][]byte, out int, msg string) {
	defer func() {
		if r := recover(); r != nil {
			bufs, out, msg = nil, 2, fmt.Sprint(r)
		}
	}()
	b, err := p.Encode(h, v)
	if err != nil {
		return nil, 1, err.Error()
	}
	return b, 0, ""
}

func c9cloneBufs(bs [][]byte) [][]byte {
	r := make([][]byte, len(bs))
	for i, b := range bs {
		r[i] = append([]byte{}, b...)
	}
	return r
}

// c9runCase: v is what Encode gets (a *[]any for events / acks, a struct or pointer for control
// packets, nil); argTypes are the handler types for decode.
func c9runCase(label string, typ parser.PacketType, nsp string, id *uint64, v any, argTypes []reflect.Type, nbin int) c9codecCase {
	return c9runCaseOn(nil, label, typ, nsp, id, v, argTypes, nbin)
}

// c9runCaseOn: enc is the parser Encode is called on (nil: a fresh one); it may be shared with
// other goroutines that are encoding their own values at the same time. Decoding always uses a
// parser of its own.
func c9runCaseOn(enc parser.Parser, label string, typ parser.PacketType, nsp string, id *uint64, v any, argTypes []reflect.Type, nbin int) c9codecCase {
	creator := jsonparser.NewCreator(0, stdjson.New())
	p := enc
	if p == nil {
		p = creator()
	}
	c := c9codecCase{Label: label, NBin: nbin}
	h := &parser.PacketHeader{Type: typ, Namespace: nsp, ID: id}
	h0 := *h
	c.H = c9hdrOut(h)

	// The c9tree of the value BEFORE Encode needs the map visiting order, known only after the
	// first Encode: take a structural snapshot first (JSON of the c9tree with sorted maps), and
	// produce the ordered c9tree from the value after Encode only if it is unchanged.
	var before c9tree
	if v != nil {
		before = c9toGV(reflect.ValueOf(v), nil)
	}
	bufs, out, msg := c9safeEncode(p, h, v)
	c.Out, c.Err = out, msg
	bufs = c9cloneBufs(bufs)
	c.Frames = c9framesOut(bufs)
	c.HAfter = c9hdrOut(h)
	if v != nil {
		c.V = before
		c.VAfter = c9toGV(reflect.ValueOf(v), nil)
	}
	c.TysOK = true
	for _, t := range argTypes {
		if t == nil {
			c.Tys = append(c.Tys, "any")
			continue
		}
		if t.Kind() == reflect.Ptr {
			t = t.Elem()
		}
		e, ok := c9toTy(t)
		c.TysOK = c.TysOK && ok
		c.Tys = append(c.Tys, e)
	}
	if c.Tys == nil {
		c.Tys = []c9tree{}
	}
	if out != 0 {
		return c
	}

	// second Encode: same value, fresh header; third: the header object used first
	h2 := h0
	b2, o2, _ := c9safeEncode(p, &h2, v)
	c.Out2, c.Frames2 = o2, c9framesOut(b2)
	b3, o3, _ := c9safeEncode(p, h, v)
	c.Out3, c.Frames3 = o3, c9framesOut(b3)

	// decode with a fresh parser
	q := creator()
	c.Fin = []int{}
	for i, f := range bufs {
		func() {
			defer func() {
				if r := recover(); r != nil {
					c.Err += fmt.Sprintf(" add-panic:%v", r)
					c.Fin = append(c.Fin, -1000-i)
				}
			}()
			err := q.Add(f, func(dh *parser.PacketHeader, name string, decode parser.Decode) {
				c.Fin = append(c.Fin, i)
				hj := c9hdrOut(dh)
				c.DH = &hj
				c.DName = cints([]byte(name))
				func() {
					defer func() {
						if r := recover(); r != nil {
							c.Err += fmt.Sprintf(" decode-panic:%v", r)
						}
					}()
					vals, err := decode(argTypes...)
					if err == nil {
						c.TypedOK = true
						c.Typed = []c9tree{}
						for _, rv := range vals {
							c.Typed = append(c.Typed, c9toJB(rv))
						}
					} else {
						c.Err += " typed:" + err.Error()
					}
				}()
				func() {
					defer func() {
						if r := recover(); r != nil {
							c.Err += fmt.Sprintf(" decode-any-panic:%v", r)
						}
					}()
					vals, err := decode(make([]reflect.Type, len(argTypes))...)
					if err == nil {
						c.AnyOK = true
						c.AnyD = []c9tree{}
						for _, rv := range vals {
							c.AnyD = append(c.AnyD, c9toJB(rv))
						}
					} else {
						c.Err += " any:" + err.Error()
					}
				}()
			})
			if err != nil {
				c.Err += " add:" + err.Error()
			}
		}()
	}
	return c
}

var c9nspMenu = []string{"/", "", "/admin", "/a b", "/\"q\"", "/1", "/123", "/ünï", "/x/y", "/{}", "/[", "/-", "/5-", "/a\\", "/日本"}
var c9idMenu = []uint64{0, 1, 9, 10, 99, 4294967296, 9007199254740992, 9223372036854775808, 18446744073709551615, 12345678912345678912}

func (g *c9gen) header() (string, *uint64) {
	nsp := c9nspMenu[g.r.Intn(len(c9nspMenu))]
	var id *uint64
	if g.r.Intn(2) == 0 {
		x := c9idMenu[g.r.Intn(len(c9idMenu))]
		if g.r.Intn(4) == 0 {
			x = g.r.U64()
		}
		id = &x
	}
	return nsp, id
}

func c9genCase(r *vk.Rand, i int, hard bool) c9codecCase {
	return c9genCaseOn(nil, "", false, r, i, hard)
}

// c9genCaseOn: as c9genCase, encoding on enc; forceBin: every packet is an EVENT / ACK with at
// least one attachment.
func c9genCaseOn(enc parser.Parser, tag string, forceBin bool, r *vk.Rand, i int, hard bool) c9codecCase {
	g := &c9gen{r: r}
	nsp, id := g.header()
	kind := r.Intn(10)
	if forceBin {
		kind = r.Intn(8)
	}
	switch {
	case kind <= 5: // EVENT
		name := g.str()
		if r.Intn(3) == 0 {
			name = c9strMenu[3+r.Intn(6)] // backslash / quote names
		}
		n := r.Intn(4)
		bin := r.Intn(3) != 0 || forceBin
		args := []any{name}
		types := []reflect.Type{}
		if forceBin {
			b := c9Bin(g.bin())
			args = append(args, b)
			types = append(types, reflect.TypeOf(b))
		}
		for j := 0; j < n; j++ {
			a := g.genAny(3, bin, hard)
			args = append(args, a)
			if a == nil {
				types = append(types, nil)
			} else {
				types = append(types, reflect.TypeOf(a))
			}
		}
		return c9runCaseOn(enc, tag+fmt.Sprintf("event#%d", i), parser.PacketTypeEvent, nsp, id, &args, types, g.nbin)
	case kind <= 7: // ACK
		n := r.Intn(4)
		bin := r.Intn(2) == 0 || forceBin
		args := []any{}
		types := []reflect.Type{}
		if forceBin {
			b := c9Bin(g.bin())
			args = append(args, b)
			types = append(types, reflect.TypeOf(b))
		}
		for j := 0; j < n; j++ {
			a := g.genAny(3, bin, hard)
			args = append(args, a)
			if a == nil {
				types = append(types, nil)
			} else {
				types = append(types, reflect.TypeOf(a))
			}
		}
		if id == nil {
			x := uint64(r.Intn(100))
			id = &x
		}
		return c9runCaseOn(enc, tag+fmt.Sprintf("ack#%d", i), parser.PacketTypeAck, nsp, id, &args, types, g.nbin)
	case kind == 8: // CONNECT / CONNECT_ERROR with a payload (no binary: those types are never deconstructed)
		typ := parser.PacketTypeConnect
		if r.Bool() {
			typ = parser.PacketTypeConnectError
		}
		b := &c9tB{N: g.i64(false), S: g.str(), L: []c9Bin{}}
		if r.Bool() {
			return c9runCaseOn(enc, tag+fmt.Sprintf("ctl-val#%d", i), typ, nsp, nil, *b, []reflect.Type{reflect.TypeOf(b)}, 0)
		}
		return c9runCaseOn(enc, tag+fmt.Sprintf("ctl#%d", i), typ, nsp, nil, b, []reflect.Type{reflect.TypeOf(b)}, 0)
	default: // no payload
		typ := []parser.PacketType{parser.PacketTypeConnect, parser.PacketTypeDisconnect, parser.PacketTypeEvent, parser.PacketTypeAck, parser.PacketTypeConnectError}[r.Intn(5)]
		if typ == parser.PacketTypeEvent || typ == parser.PacketTypeAck {
			typ = parser.PacketTypeDisconnect
		}
		return c9runCaseOn(enc, tag+fmt.Sprintf("nil#%d", i), typ, nsp, id, nil, []reflect.Type{}, 0)
	}
}

// c9fixedCases: the protocol document's examples, the design round's findings, boundary shapes.
func c9fixedCases() []c9codecCase {
	u := func(x uint64) *uint64 { return &x }
	ev := func(label, nsp string, id *uint64, args ...any) c9codecCase {
		types := []reflect.Type{}
		for _, a := range args[1:] {
			if a == nil {
				types = append(types, nil)
			} else {
				types = append(types, reflect.TypeOf(a))
			}
		}
		return c9runCase(label, parser.PacketTypeEvent, nsp, id, &args, types, 0)
	}
	ack := func(label, nsp string, id *uint64, args ...any) c9codecCase {
		types := []reflect.Type{}
		for _, a := range args {
			types = append(types, reflect.TypeOf(a))
		}
		if args == nil {
			args = []any{}
		}
		return c9runCase(label, parser.PacketTypeAck, nsp, id, &args, types, 0)
	}
	type auth struct {
		Token string `json:"token"`
	}
	type sidT struct {
		Sid string `json:"sid"`
	}
	type msgT struct {
		Message string `json:"message"`
	}
	pa := &c9tA{Name: "n", BinF: c9Bin("CD")}
	return []c9codecCase{
		// socket.io-protocol v5 examples
		c9runCase("doc:connect", parser.PacketTypeConnect, "/", nil, nil, nil, 0),
		c9runCase("doc:connect-admin-auth", parser.PacketTypeConnect, "/admin", nil, &auth{"123"}, []reflect.Type{reflect.TypeOf(auth{})}, 0),
		c9runCase("doc:connect-sid", parser.PacketTypeConnect, "/admin", nil, &sidT{"oSO0OpakMV_3jnilAAAA"}, []reflect.Type{reflect.TypeOf(sidT{})}, 0),
		c9runCase("doc:connect-error", parser.PacketTypeConnectError, "/", nil, &msgT{"Not authorized"}, []reflect.Type{reflect.TypeOf(msgT{})}, 0),
		c9runCase("doc:disconnect-admin", parser.PacketTypeDisconnect, "/admin", nil, nil, nil, 0),
		ev("doc:event", "/", nil, "foo"),
		ev("doc:event-admin-ack", "/admin", u(12), "foo"),
		ev("doc:event-hello", "/", nil, "hello", 1, "2", map[string]any{"3": "4", "5": c9Bin{6}}),
		ack("doc:ack-admin", "/admin", u(13), "bar"),
		ev("doc:binary-event", "/", nil, "baz", c9Bin{1, 2, 3, 4}),
		ev("doc:binary-event-admin-ack", "/admin", u(456), "baz", c9Bin{1, 2}, c9Bin{3}),
		ack("doc:binary-ack-admin", "/admin", u(456), "bar", c9Bin{7, 8}),
		// findings of the design round
		ev("name-backslash", "/", nil, "a\\"),
		ev("name-backslash-arg", "/", nil, "a\\", 1),
		ev("name-2backslash", "/", nil, "\\\\", "x"),
		ev("name-quote", "/", nil, "a\"b\\\"", "x"),
		ev("ptr-struct-bin", "/", nil, "e", pa),
		ev("val-struct-bin", "/", nil, "e", c9tA{"n", c9Bin("EF")}),
		ev("map-any-bin", "/", nil, "e", map[string]any{"a": c9Bin("GH")}),
		ev("slice-bin", "/", nil, "e", []c9Bin{c9Bin("x"), c9Bin("12")}),
		ev("nested-any-slice", "/", nil, "e", []any{c9Bin("q")}),
		ev("map-typed-bin", "/", nil, "e", map[string]c9Bin{"a": c9Bin("IJ")}),
		ev("iface-field-bin", "/", nil, "e", &c9tC{V: c9Bin("zz"), M: map[string]any{}, S: []c9tA{}, Q: []*c9tA{}}),
		ev("list-in-map-bin", "/", nil, "e", map[string]any{"l": []any{map[string]any{"b": c9Bin("KL")}}}),
		ev("two-in-map", "/", nil, "e", map[string]any{"a": c9Bin("M1"), "b": c9Bin("M2"), "c": c9Bin("M3"), "d": c9Bin("M4")}),
		ev("fake-placeholder", "/", nil, "e", map[string]any{"_placeholder": true, "num": 0}, c9Bin("real")),
		ev("big-id", "/x", u(18446744073709551615), "e", int64(-1<<63)),
		ev("digits-nsp", "/12", u(34), "e"),
		// boundary table of every leaf kind
		ev("bin-empty", "/demo", u(7), "e", c9Bin("first"), &c9tA{Name: "", BinF: c9Bin{}}, c9Bin("last")),
		ev("bin-nil-field", "/", nil, "e", &c9tA{Name: "unset"}, c9Bin("x")),
		ev("bin-only-empty", "/", nil, "e", c9Bin{}),
		ev("bin-equal", "/", nil, "e", c9Bin("same"), c9Bin("same"), []c9Bin{c9Bin("same"), {}, nil}),
		ev("name-empty", "/", nil, "", "x"),
		ev("name-empty-bin", "", u(0), "", c9Bin{}),
		ev("zero-structs", "/", nil, "e", &c9tA{}, &c9tB{}, &c9tC{}, &c9tD{}),
		ev("empty-containers", "/", nil, "e", []any{}, map[string]any{}, []c9Bin{}, "", []string{}),
		ev("nil-things", "/", nil, "e", nil, []any(nil), map[string]any(nil), &c9tB{}),
		ev("ints", "/", nil, "e", int64(0), int64(-1), int64(1<<53-1), int64(-(1<<53 - 1)), &c9tB{N: 1<<53 + 1}, &c9tB{N: -1 << 63}, &c9tB{N: 1<<63 - 1}),
		ack("ack-bin-empty", "/a", u(1), c9Bin{}, c9Bin(nil)),
		ack("ack-empty", "/", u(0)),
		ack("ack-nsp-digits", "/9", u(9), 9),
	}
}

// ---------------------------------------------------------------- JSON library suite
type c9jsonCase struct {
	V       c9tree `json:"v"`       // the c9tree marshalled (gv form: maps sorted)
	Out     []int  `json:"out"`     // json.Marshal output
	Text    []int  `json:"text"`    // a text handed to json.Unmarshal (Out, re-spaced, or a hand-written one)
	ParseOK bool   `json:"parseok"` // Unmarshal into any succeeded
	Parsed  c9tree `json:"parsed"`  // its result as a shape
	Float   bool   `json:"float"`   // the result contains a non-integral number or one beyond 2^53
}

func c9hasFloat(t c9tree) bool {
	l, ok := t.([]any)
	if !ok {
		return false
	}
	if len(l) > 0 {
		if s, ok := l[0].(string); ok && s == "f" {
			return true
		}
		if s, ok := l[0].(string); ok && s == "i" {
			z, err := strconv.ParseInt(l[1].(string), 10, 64)
			if err != nil || z >= 1<<53 || z <= -(1<<53) {
				return true
			}
		}
	}
	for _, x := range l {
		if c9hasFloat(x) {
			return true
		}
	}
	return false
}

// c9fracOrExp: some number of the text is written with a fraction or an exponent.
func c9fracOrExp(text []byte) bool {
	dec := json.NewDecoder(strings.NewReader(string(text)))
	dec.UseNumber()
	for {
		tok, err := dec.Token()
		if err != nil {
			return false
		}
		if n, ok := tok.(json.Number); ok && strings.ContainsAny(string(n), ".eE") {
			return true
		}
	}
}

var c9jsonTexts = []string{
	`null`, ` true `, "\t[ ]\n", `{ }`, `[1, 2 ,3]`, `{"a" : 1 , "b":[ ] }`, `"éA€\/\b\f\n\r\t"`, `" "`,
	`-0`, `0`, `-12`, `01`, `1.5`, `1e3`, `[1,]`, `{"a":1,}`, `"unterminated`, `"bad \x escape"`, "\"ctrl\x01\"", `[1] x`, `tru`, `nul`,
	`{"a":{"b":{"c":[[[]]]}}}`, `"😀"`, `"\ud83d"`, `[`, `{`, `{"a"}`, `{1:2}`, `--1`, `-`, `"\u12"`, `  `, ``, `9007199254740992`, `123456789012345678901234567890`,
}

func c9jsonSuite(r *vk.Rand, n int, out *vk.Out) {
	g := &c9gen{r: r}
	emit := func(v any, text []byte, haveV bool) {
		c := c9jsonCase{Text: cints(text)}
		if haveV {
			c.V = c9toGV(reflect.ValueOf(&v).Elem(), nil)
			b, err := json.Marshal(v)
			if err != nil {
				return
			}
			c.Out = cints(b)
			if text == nil {
				text = b
				if r.Intn(3) == 0 { // re-space
					s := strings.NewReplacer(",", " ,\n", ":", ": ", "[", "[ ", "{", "{\t").Replace(string(b))
					// only safe when no string contains these characters
					var chk any
					if json.Unmarshal([]byte(s), &chk) == nil {
						b2, _ := json.Marshal(chk)
						var chk0 any
						json.Unmarshal(b, &chk0)
						b0, _ := json.Marshal(chk0)
						if string(b2) == string(b0) {
							text = []byte(s)
						}
					}
				}
				c.Text = cints(text)
			}
		}
		var x any
		err := json.Unmarshal(text, &x)
		c.ParseOK = err == nil
		if err == nil {
			c.Parsed = c9toJB(reflect.ValueOf(&x).Elem())
			c.Float = c9hasFloat(c.Parsed) || c9fracOrExp(text)
		}
		out.Put(c)
	}
	for _, t := range c9jsonTexts {
		emit(nil, []byte(t), false)
	}
	for i := 0; i < n; i++ {
		emit(g.genAny(4, false, false), nil, true)
	}
}

// ---------------------------------------------------------------- concurrent use of one parser
// c9gate: a rendezvous with a timeout. Every goroutine that is inside Encode arrives here each
// time the parser calls the JSON library (once per placeholder, once for the payload), so that
// the Encode calls of the goroutines overlap phase by phase instead of by chance. A goroutine
// that waits longer than the timeout releases everybody (the others may have nothing to encode).
type c9gate struct {
	mu      sync.Mutex
	n       int
	waiting int
	ch      chan struct{}
	timeout time.Duration
}

func (g *c9gate) arrive() {
	g.mu.Lock()
	g.waiting++
	ch := g.ch
	if g.waiting >= g.n {
		g.waiting = 0
		g.ch = make(chan struct{})
		close(ch)
		g.mu.Unlock()
		return
	}
	g.mu.Unlock()
	select {
	case <-ch:
	case <-time.After(g.timeout):
		g.mu.Lock()
		if g.ch == ch {
			g.waiting = 0
			g.ch = make(chan struct{})
			close(ch)
		}
		g.mu.Unlock()
	}
}

type c9gateJSON struct {
	serializer.JSONSerializer
	g *c9gate
}

func (s c9gateJSON) Marshal(v any) ([]byte, error) {
	s.g.arrive()
	return s.JSONSerializer.Marshal(v)
}

func (s c9gateJSON) NewEncoder(w io.Writer) serializer.JSONEncoder {
	return c9gateEnc{s.JSONSerializer.NewEncoder(w), s.g}
}

type c9gateEnc struct {
	e serializer.JSONEncoder
	g *c9gate
}

func (e c9gateEnc) Encode(v any) error {
	e.g.arrive()
	return e.e.Encode(v)
}

// c9concSuite: G goroutines, each with its own generator and its own values, all encoding on ONE
// parser (as the goroutines emitting on one socket and the broadcasts of one adapter do); every
// goroutine decodes its frames with a parser of its own. Each row is an ordinary codec case: what
// its Encode calls returned and did to its values must be what they do when run alone.
func c9concSuite(seed uint64, goroutines, per int, out *vk.Out) {
	gate := &c9gate{n: goroutines, ch: make(chan struct{}), timeout: 2 * time.Millisecond}
	shared := jsonparser.NewCreator(0, c9gateJSON{stdjson.New(), gate})()
	rows := make([][]c9codecCase, goroutines)
	start := make(chan struct{})
	var wg sync.WaitGroup
	for gi := 0; gi < goroutines; gi++ {
		wg.Add(1)
		go func(gi int) {
			defer wg.Done()
			r := vk.NewRand(seed*1000003 + uint64(gi)*7919 + 1)
			<-start
			for i := 0; i < per; i++ {
				rows[gi] = append(rows[gi], c9genCaseOn(shared, fmt.Sprintf("g%d:", gi), true, r.Fork(), i, false))
			}
		}(gi)
	}
	close(start)
	wg.Wait()
	for _, rs := range rows {
		for _, c := range rs {
			out.Put(c)
		}
	}
}

func siocodecMain(args []string) error {
	fs := flag.NewFlagSet("siocodec", flag.ExitOnError)
	seed := fs.Uint64("seed", 1, "")
	mode := fs.String("mode", "codec", "codec|fixed|json|conc")
	goroutines := fs.Int("g", 4, "goroutines sharing one parser (conc)")
	n := fs.Int("n", 300, "number of generated cases")
	hard := fs.Bool("hard", false, "include values Encode is known to refuse")
	outp := fs.String("out", "-", "")
	fs.Parse(args)
	out, err := vk.NewOut(*outp)
	if err != nil {
		return err
	}
	defer out.Close()
	r := vk.NewRand(*seed)
	switch *mode {
	case "fixed":
		for _, c := range c9fixedCases() {
			out.Put(c)
		}
	case "json":
		c9jsonSuite(r, *n, out)
	case "conc":
		c9concSuite(*seed, *goroutines, *n, out)
	default:
		for i := 0; i < *n; i++ {
			out.Put(c9genCase(r.Fork(), i, *hard))
		}
	}
	return nil
}
