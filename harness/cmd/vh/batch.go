package main

import (
	"flag"

	eio "github.com/karagenc/socket.io-go/engine.io"
	"github.com/karagenc/socket.io-go/engine.io/parser"

	"verifharness/vk"
)

// batch: runs the real client batcher (writeWritablePackets) on vectors of packets.
// Output per case: {"max":M,"tr":"polling","pk":[[bin,len],...],"out":[[[bin,len],...],...],
// "ids":[[idx...],...]} where ids are the indexes (into pk) of the packets of each Send call,
// recovered by pointer identity, so drops / duplicates / reorderings are visible.
func init() { register("batch", batchMain) }

type batchCase struct {
	Max int64    `json:"max"`
	Tr  string   `json:"tr"`
	Pk  [][2]int `json:"pk"`  // [isBinary, dataLen]
	Ids [][]int  `json:"ids"` // per Send call: indexes of packets
}

func runBatch(max int64, tr string, pk [][2]int) batchCase {
	packets := make([]*parser.Packet, len(pk))
	index := map[*parser.Packet]int{}
	for i, d := range pk {
		p := &parser.Packet{IsBinary: d[0] == 1, Type: parser.PacketTypeMessage, Data: make([]byte, d[1])}
		packets[i] = p
		index[p] = i
	}
	sends := eio.VerifWriteWritablePackets(tr, max, packets)
	c := batchCase{Max: max, Tr: tr, Pk: pk, Ids: [][]int{}}
	for _, s := range sends {
		ids := []int{}
		for _, p := range s {
			if i, ok := index[p]; ok {
				ids = append(ids, i)
			} else {
				ids = append(ids, -1)
			}
		}
		c.Ids = append(c.Ids, ids)
	}
	return c
}

func batchMain(args []string) error {
	fs := flag.NewFlagSet("batch", flag.ExitOnError)
	seed := fs.Uint64("seed", 1, "")
	mode := fs.String("mode", "exhaustive", "exhaustive|random")
	maxLen := fs.Int("maxlen", 4, "max vector length (exhaustive)")
	n := fs.Int("n", 1000, "number of random cases")
	outp := fs.String("out", "-", "")
	fs.Parse(args)
	out, err := vk.NewOut(*outp)
	if err != nil {
		return err
	}
	defer out.Close()

	// sizes are data lengths; text packet of length l encodes to 1+l, binary to 1+4*ceil(l/3)
	menu := [][2]int{{0, 0}, {0, 1}, {0, 2}, {0, 4}, {0, 7}, {1, 0}, {1, 1}, {1, 4}}
	if *mode == "exhaustive" {
		var rec func(prefix [][2]int)
		rec = func(prefix [][2]int) {
			if len(prefix) > 0 {
				for max := int64(1); max <= 20; max++ {
					out.Put(runBatch(max, "polling", append([][2]int{}, prefix...)))
				}
			}
			if len(prefix) == *maxLen {
				return
			}
			for _, m := range menu {
				rec(append(prefix, m))
			}
		}
		rec(nil)
		return nil
	}
	r := vk.NewRand(*seed)
	for i := 0; i < *n; i++ {
		k := 1 + r.Intn(12)
		pk := make([][2]int, k)
		for j := range pk {
			l := r.Intn(40)
			if r.Intn(8) == 0 {
				l = r.Intn(3000)
			}
			pk[j] = [2]int{r.Intn(2), l}
		}
		var max int64
		switch r.Intn(10) {
		case 0:
			max = 0
		case 1:
			max = -1
		case 2:
			max = int64(1 + r.Intn(5000))
		default:
			max = int64(1 + r.Intn(120))
		}
		tr := "polling"
		if r.Intn(6) == 0 {
			tr = []string{"websocket", "webtransport"}[r.Intn(2)]
		}
		out.Put(runBatch(max, tr, pk))
	}
	return nil
}
