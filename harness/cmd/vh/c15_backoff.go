package main

import (
	"flag"
	"fmt"
	"math"
	"math/rand"
	"time"

	sio "github.com/karagenc/socket.io-go"

	"verifharness/vk"
)

// backoff: runs the real back-off calculator (sio.VerifBackoffDuration, verif export of
// newBackoff + duration) on a boundary grid and on seeded random inputs.
//
// The jitter draw is made reproducible without touching the calculator: the global math/rand
// source is seeded per case and the draw is predicted with a private source of the same seed
// (checked: the global source gives the same value).  The draw is reported exactly as the
// pair (k, ke) with r = k / 2^ke; the jitter as the dyadic rational jm / 2^je.
//
// Output per case: {"min","max","jm","je","att","k","ke","conv","d","after"}; conv is what this
// platform's float64->int64 conversion gives for 2^64 (out of range: implementation specific).
func init() { register("backoff", backoffMain) }

type backoffCase struct {
	Min   int64  `json:"min"`
	Max   int64  `json:"max"`
	JM    int64  `json:"jm"` // jitter = jm / 2^je (0 = not a number)
	JE    int64  `json:"je"`
	Att   uint32 `json:"att"`
	K     int64  `json:"k"` // draw r = k / 2^ke
	KE    int64  `json:"ke"`
	Conv  int64  `json:"conv"`
	D     int64  `json:"d"`
	After uint32 `json:"after"`
}

var backoffSink float64 = 64

func platformConv() int64 {
	x := math.Pow(2, backoffSink) // not a constant for the compiler
	return int64(x)
}

func dyadic(j float32) (jm, je int64) {
	f := float64(j)
	if f == 0 || math.IsNaN(f) || math.IsInf(f, 0) {
		return 0, 0
	}
	frac, exp := math.Frexp(f) // f = frac * 2^exp, |frac| in [0.5,1)
	m := frac * (1 << 24)      // exact: float32 has 24 significant bits
	if m != math.Trunc(m) {
		panic("dyadic: not a float32 value")
	}
	return int64(m), int64(24 - exp)
}

func runBackoff(min, max int64, jitter float32, att uint32, seed int64) (backoffCase, error) {
	pred := rand.New(rand.NewSource(seed)).Float64()
	rand.Seed(seed)
	if rand.Float64() != pred {
		return backoffCase{}, fmt.Errorf("cannot predict the global math/rand draw")
	}
	rand.Seed(seed)
	d, after := sio.VerifBackoffDuration(time.Duration(min), time.Duration(max), jitter, att)
	var k, ke int64
	if pred != 0 {
		frac, exp := math.Frexp(pred)
		m := frac * (1 << 53)
		if m != math.Trunc(m) {
			return backoffCase{}, fmt.Errorf("draw has more than 53 significant bits")
		}
		k, ke = int64(m), int64(53-exp)
	}
	jm, je := dyadic(jitter)
	return backoffCase{Min: min, Max: max, JM: jm, JE: je, Att: att, K: k, KE: ke, Conv: platformConv(), D: int64(d), After: after}, nil
}

func backoffMain(args []string) error {
	fs := flag.NewFlagSet("backoff", flag.ExitOnError)
	seed := fs.Uint64("seed", 1, "")
	mode := fs.String("mode", "grid", "grid|random|sequence")
	n := fs.Int("n", 1000, "number of random cases")
	tier := fs.String("tier", "quick", "")
	outp := fs.String("out", "-", "")
	fs.Parse(args)
	out, err := vk.NewOut(*outp)
	if err != nil {
		return err
	}
	defer out.Close()
	r := vk.NewRand(*seed)

	const maxI = math.MaxInt64
	var atts []uint32
	var mins, maxs []int64
	var jits []float32
	if *tier == "quick" {
		atts = []uint32{0, 1, 2, 3, 10, 31, 32, 33, 52, 53, 54, 61, 62, 63, 64, 70, 1023, 1024, 1 << 31, 1<<32 - 1}
		mins = []int64{1, 5, 1e6, 1e9, 1<<53 + 3, maxI, 0, -5e9}
		maxs = []int64{1, 5e9, 1<<53 - 1, 1<<53 + 1, 1<<53 + 3, 1 << 62, maxI - 512, maxI}
		jits = []float32{0, 0.5}
	} else {
		for a := uint32(0); a <= 70; a++ {
			atts = append(atts, a)
		}
		atts = append(atts, 1022, 1023, 1024, 1025, 1<<31-1, 1<<31, 1<<32-2, 1<<32-1)
		mins = []int64{1, 3, 5, 1000, 1e6, 1e9, 1 << 31, 1 << 32, 1<<53 - 1, 1<<53 + 3, 1<<61 + 1, 1 << 62, maxI, 0, -1, math.MinInt64}
		maxs = []int64{1, 1e6, 5e9, 1<<32 - 1, 1<<53 - 1, 1 << 53, 1<<53 + 1, 1<<53 + 3, 1 << 62,
			maxI - 1024, maxI - 513, maxI - 512, maxI - 1, maxI}
		jits = []float32{0, 0.5, 1, 1.5}
	}

	switch *mode {
	case "grid":
		for im, mi := range mins {
			for ix, ma := range maxs {
				for ia, a := range atts {
					for ij, j := range jits {
						if *tier == "quick" && (ia+im+ix)%2 != ij {
							continue // quick tier: jitter on for one half of the grid points, off for the other
						}
						c, err := runBackoff(mi, ma, j, a, int64(r.U64()>>1))
						if err != nil {
							return err
						}
						out.Put(c)
					}
				}
			}
		}
	case "random":
		pick := func() int64 {
			switch r.Intn(6) {
			case 0:
				return int64(r.U64()) // anything, also negative
			case 1:
				return int64(r.U64() >> uint(1+r.Intn(62)))
			case 2:
				return int64(1+r.Intn(20)) * int64(time.Millisecond)
			case 3:
				return int64(1) << uint(r.Intn(63))
			case 4:
				return maxI - int64(r.Intn(2048))
			default:
				return int64(1+r.Intn(5000)) * int64(time.Millisecond)
			}
		}
		for i := 0; i < *n; i++ {
			mi, ma := pick(), pick()
			if r.Intn(4) != 0 && ma < 0 {
				ma = -(ma + 1)
			}
			var a uint32
			switch r.Intn(5) {
			case 0:
				a = uint32(r.U64())
			case 1:
				a = uint32(r.Intn(1100))
			default:
				a = uint32(r.Intn(66))
			}
			var j float32
			switch r.Intn(6) {
			case 0:
				j = 0
			case 1:
				j = 1
			case 2:
				j = float32(r.Intn(3000)-1000) / 1000
			default:
				j = float32(r.U64()>>40) / (1 << 24)
			}
			c, err := runBackoff(mi, ma, j, a, int64(r.U64()>>1))
			if err != nil {
				return err
			}
			out.Put(c)
		}
	case "sequence":
		// delays of a fresh calculator, attempt after attempt, then after reset (no jitter):
		// {"min","max","ds":[...],"reset":d}
		for _, mi := range []int64{1e6, 5e6, 1e9, 3, 1 << 40} {
			for _, ma := range []int64{1e6, 2e7, 5e9, 1 << 62, maxI} {
				ds, after := sio.VerifBackoffSequence(time.Duration(mi), time.Duration(ma), 0, 80)
				ids := make([]int64, len(ds))
				for i, d := range ds {
					ids[i] = int64(d)
				}
				out.Put(map[string]any{"min": mi, "max": ma, "conv": platformConv(), "ds": ids, "reset": int64(after)})
			}
		}
	default:
		return fmt.Errorf("unknown mode %q", *mode)
	}
	return nil
}
