package main

// session (conc part): one broadcast in flight against one reconnecting session, on the REAL
// session-aware adapter, hook-free and deterministic: the reconnection's sub-steps
// (RestoreSession, AddAll of the persisted rooms, making the socket visible to the socket store)
// and environment operations are issued from inside the broadcast - from the MarshalJSON of the
// payload (after the log append, before the targets are computed) and from the delivery callbacks
// of the other connected sockets (every position of the target iteration) - as well as before and
// after the Broadcast call (C08).

import (
	"encoding/json"
	"fmt"
	"time"

	"github.com/karagenc/socket.io-go/adapter"
	"github.com/karagenc/socket.io-go/parser"

	"verifharness/vk"
)

// c08EncodeHook runs a function when the payload is encoded.
type c08EncodeHook struct{ f func() }

func (h c08EncodeHook) MarshalJSON() ([]byte, error) {
	if h.f != nil {
		h.f()
	}
	return []byte("7"), nil
}

// positions: -2 before the Broadcast call, -1 while the payload is encoded, i >= 0 inside the
// (i+1)-th delivery callback of the broadcast; whatever is still pending when Broadcast returns
// runs right after it.
type c08ConcCase struct {
	Suite      string  `json:"suite"`
	Others     [][]int `json:"others"`    // rooms of the other connected sockets o0..
	SessRooms  []int   `json:"sessrooms"` // rooms of the persisted session
	Pre        int     `json:"pre"`       // packets logged beforehand (ids 1..pre); the offset is the OffIdx-th
	OffIdx     int     `json:"offidx"`
	To         []int   `json:"to"`
	Except     []int   `json:"except"`
	PosRestore int     `json:"pos_restore"`
	PosJoin    int     `json:"pos_join"`
	PosVisible int     `json:"pos_visible"`
	EnvPos     int     `json:"env_pos"`
	Env        string  `json:"env"` // "", "C" clean-up pass, "PR" persist+restore of another session, "B" another broadcast

	// observations
	Events    []string `json:"events"`     // enc | del:<socket> | restore:<ok>:<P in log> | join | visible | env | ret
	RestoreOk bool     `json:"restore_ok"` //
	MissedP   int      `json:"missed_p"`   // occurrences of P among the missed packets
	MissedN   int      `json:"missed_n"`   // number of missed packets
	MissedPre []int    `json:"missed_pre"` // indexes (1..) of the pre packets among the missed ones
	LiveP     int      `json:"live_p"`     // live deliveries of P to the session's socket
	Logged    bool     `json:"logged"`     // P is in the log after Broadcast returned
}

const c08SessSid = adapter.SocketID("s9")

func c08RunConc(c *c08ConcCase) {
	store := newRecStore()
	a, gate := newGatedAdapter(time.Hour, store)
	for i, rooms := range c.Others {
		sid := adapter.SocketID(fmt.Sprintf("o%d", i))
		store.sockets[sid] = &recSocket{id: sid}
		var rr []adapter.Room
		for _, r := range rooms {
			rr = append(rr, roomName(r))
		}
		a.AddAll(sid, append(rr, adapter.Room(sid)))
	}
	// the packets logged before; the session received them up to OffIdx
	var preIDs []string
	for i := 0; i < c.Pre; i++ {
		h := &parser.PacketHeader{Type: parser.PacketTypeEvent, Namespace: "/"}
		a.Broadcast(h, []any{"pre", i}, adapter.NewBroadcastOptions())
		log, _, _ := adapter.VerifSessionLog(a)
		preIDs = append(preIDs, log[len(log)-1].ID)
	}
	for sid := range store.sockets {
		store.take(sid)
	}
	var sessRooms []adapter.Room
	for _, r := range c.SessRooms {
		sessRooms = append(sessRooms, roomName(r))
	}
	sessRooms = append(sessRooms, adapter.Room(c08SessSid))
	a.PersistSession(&adapter.SessionToPersist{SID: c08SessSid, PID: "p9", Rooms: sessRooms})
	off := "no-such-offset"
	if c.OffIdx >= 1 && c.OffIdx <= len(preIDs) {
		off = preIDs[c.OffIdx-1]
	}

	envID := "" // id of the environment's own broadcast, if any
	inLog := func() int {
		log, _, _ := adapter.VerifSessionLog(a)
		n := 0
		for _, p := range log[c.Pre:] {
			if p.ID != envID {
				n++
			}
		}
		if n > 0 {
			return 1
		}
		return 0
	}
	var session *adapter.SessionToPersist
	type pending struct {
		pos int
		f   func()
	}
	ev := func(s string) { c.Events = append(c.Events, s) }
	steps := []pending{
		{c.PosRestore, func() {
			s, ok := a.RestoreSession("p9", off)
			c.RestoreOk = ok
			session = s
			ev(fmt.Sprintf("restore:%v:%d", ok, inLog()))
		}},
		{c.PosJoin, func() {
			if session != nil {
				a.AddAll(session.SID, session.Rooms)
				ev("join")
			}
		}},
		{c.PosVisible, func() {
			if session != nil {
				store.mu.Lock()
				store.sockets[c08SessSid] = &recSocket{id: c08SessSid}
				store.mu.Unlock()
				ev("visible")
			}
		}},
	}
	if c.Env != "" {
		envStep := pending{c.EnvPos, func() {
			switch c.Env {
			case "C":
				gate.pass()
			case "PR":
				a.PersistSession(&adapter.SessionToPersist{SID: "s8", PID: "p8", Rooms: []adapter.Room{"s8"}})
				a.RestoreSession("p8", off)
			case "B":
				h := &parser.PacketHeader{Type: parser.PacketTypeEvent, Namespace: "/"}
				o := adapter.NewBroadcastOptions()
				o.Rooms.Add("nobody")
				before, _, _ := adapter.VerifSessionLog(a)
				a.Broadcast(h, []any{"other"}, o)
				after, _, _ := adapter.VerifSessionLog(a)
				if len(after) > len(before) {
					envID = after[len(after)-1].ID
				}
			}
			ev("env")
		}}
		// the environment step runs before the reconnection steps placed at the same position
		steps = append([]pending{envStep}, steps...)
	}
	// the steps keep their order (restore, join, visible); a step runs at the first position >= its own
	next := 0
	runUpTo := func(pos int) {
		for next < len(steps) && steps[next].pos <= pos {
			f := steps[next].f
			next++
			f()
		}
	}
	if c.Env != "" { // env first only among equals: order the list by position, stable
		for i := 1; i < len(steps); i++ {
			for j := i; j > 0 && steps[j].pos < steps[j-1].pos; j-- {
				steps[j], steps[j-1] = steps[j-1], steps[j]
			}
		}
	}
	runUpTo(-2)
	ndel := 0
	store.hook = func(sid adapter.SocketID) {
		if sid == c08SessSid {
			ev("del:s9")
			return
		}
		ev("del:" + string(sid))
		runUpTo(ndel)
		ndel++
	}
	h := &parser.PacketHeader{Type: parser.PacketTypeEvent, Namespace: "/"}
	opts := adapter.NewBroadcastOptions()
	for _, r := range c.To {
		opts.Rooms.Add(roomName(r))
	}
	for _, r := range c.Except {
		opts.Except.Add(roomName(r))
	}
	v := make([]any, 0, 4)
	v = append(v, "ev", c08EncodeHook{f: func() { ev("enc"); runUpTo(-1) }})
	a.Broadcast(h, v, opts)
	store.hook = nil
	ev("ret")
	c.Logged = inLog() == 1
	log, _, _ := adapter.VerifSessionLog(a)
	pid := ""
	for _, p := range log[c.Pre:] {
		if p.ID != envID {
			pid = p.ID
		}
	}
	runUpTo(1 << 30)
	// what the session's client ends up with
	if session != nil {
		c.MissedN = len(session.MissedPackets)
		for _, m := range session.MissedPackets {
			if pid != "" && m.ID == pid {
				c.MissedP++
			}
			for i, id := range preIDs {
				if m.ID == id {
					c.MissedPre = append(c.MissedPre, i+1)
				}
			}
		}
	}
	for _, b := range store.take(c08SessSid) {
		var args []any
		if j := indexByte(b, '['); j >= 0 && json.Unmarshal(b[j:], &args) == nil && len(args) > 0 && args[0] == "ev" {
			c.LiveP++
		}
	}
}

func indexByte(b []byte, c byte) int {
	for i, x := range b {
		if x == c {
			return i
		}
	}
	return -1
}

func c08GenConc(r *vk.Rand, emit func(*c08ConcCase)) {
	// every placement of an atomic reconnection, and of the three sub-steps, over a few room layouts
	layouts := []struct {
		others [][]int
		sess   []int
		to, ex []int
	}{
		{[][]int{{1}, {1}, {1}}, []int{1}, []int{1}, nil},
		{[][]int{{1}, {2}, {1, 2}}, []int{1, 2}, nil, nil},
		{[][]int{{1}, {1}}, []int{1, 3}, []int{1}, []int{2}},
		{[][]int{{1}, {1}, {2}}, []int{1, 2}, []int{1}, []int{2}}, // excluded: not addressed
		{[][]int{{1}}, []int{2}, []int{1}, nil},                   // not a target room
		{[][]int{{2}, {2}}, []int{1}, nil, []int{2}},
	}
	for li, l := range layouts {
		k := len(l.others)
		for p1 := -2; p1 <= k; p1++ {
			for p2 := p1; p2 <= k; p2++ {
				for p3 := p2; p3 <= k; p3++ {
					if !(p1 == p2 && p2 == p3) && (li > 2) {
						continue // split placements on the first three layouts only
					}
					envs := []string{""}
					if p1 == p3 {
						envs = []string{"", "C", "PR", "B"}
					}
					for _, e := range envs {
						c := &c08ConcCase{Suite: "conc", Others: l.others, SessRooms: l.sess, Pre: 2, OffIdx: 1 + r.Intn(2),
							To: l.to, Except: l.ex, PosRestore: p1, PosJoin: p2, PosVisible: p3, Env: e, EnvPos: -2 + r.Intn(k+3)}
						emit(c)
					}
				}
			}
		}
	}
}

func c08Conc(out *vk.Out, seed uint64, n int) error {
	r := vk.NewRand(seed)
	c08GenConc(r, func(c *c08ConcCase) {
		c08RunConc(c)
		out.Put(c)
	})
	// random layouts
	for i := 0; i < n; i++ {
		k := 1 + r.Intn(4)
		c := &c08ConcCase{Suite: "conc-random", Pre: 1 + r.Intn(3), SessRooms: randRooms(r, 3, 10), To: randRooms(r, 3, 40), Except: randRooms(r, 3, 70)}
		for j := 0; j < k; j++ {
			c.Others = append(c.Others, randRooms(r, 3, 10))
		}
		c.OffIdx = 1 + r.Intn(c.Pre)
		if r.Intn(10) == 0 {
			c.OffIdx = 0
		}
		c.PosRestore = -2 + r.Intn(k+3)
		c.PosJoin, c.PosVisible = c.PosRestore, c.PosRestore
		if r.Intn(3) == 0 {
			c.PosJoin = c.PosRestore + r.Intn(k+1-c.PosRestore+1)
			c.PosVisible = c.PosJoin + r.Intn(k+1-c.PosJoin+1)
		}
		if r.Intn(3) == 0 {
			c.Env = []string{"C", "PR", "B"}[r.Intn(3)]
			c.EnvPos = -2 + r.Intn(k+3)
		}
		c08RunConc(c)
		out.Put(c)
	}
	return nil
}
