package main

// Part of the `middleware` engine (C12): admission through the repo's Go client, and the per-socket
// event middleware suite.  See middleware.go.

import (
	"encoding/json"
	"fmt"
	"net/http/httptest"
	"strconv"
	"strings"
	"sync"
	"time"

	sio "github.com/karagenc/socket.io-go"
	eio "github.com/karagenc/socket.io-go/engine.io"
	"nhooyr.io/websocket"

	"verifharness/vk"
)

func goManager(url string) *sio.Manager {
	return sio.NewManager(url, &sio.ManagerConfig{
		NoReconnection: true,
		EIO: eio.ClientConfig{Transports: []string{"websocket"},
			WebSocketDialOptions: &websocket.DialOptions{CompressionMode: websocket.CompressionDisabled}},
	})
}

// ---------------------------------------------------------------- admission via the Go client

func admGoMain(out *vk.Out, rnd *vk.Rand, maxLen int, limit int) error {
	id := 0
	for _, name := range []string{"/", "/chat"} {
		for k := 0; k <= maxLen; k++ {
			r, err := newAdmRig(name, k)
			if err != nil {
				return err
			}
			vecs := enumVectors(k)
			if limit > 0 && len(vecs) > limit {
				// seeded sample, always keeping the all-accept vector
				for i := len(vecs) - 1; i > 1; i-- {
					j := 1 + rnd.Intn(i)
					vecs[i], vecs[j] = vecs[j], vecs[i]
				}
				vecs = vecs[:limit]
			}
			var all []*admCase
			for _, v := range vecs {
				c := &admCase{ID: id, Suite: "admgo", Nsp: name, K: k, Conc: len(vecs), V: v, J: make([]int, k),
					Calls: []viewObs{}, Handler: []viewObs{}, Sids: []string{}, MsgMw: -1, MsgCode: -1, hch: make(chan struct{})}
				id++
				for i := range c.J {
					c.J[i] = rnd.Intn(4)
				}
				all = append(all, c)
				r.cases[c.ID] = c
			}
			var wg sync.WaitGroup
			start := make(chan struct{})
			var managers []*sio.Manager
			var mmu sync.Mutex
			for _, c := range all {
				c := c
				wg.Add(1)
				go func() {
					defer wg.Done()
					m := goManager(r.ts.URL)
					mmu.Lock()
					managers = append(managers, m)
					mmu.Unlock()
					s := m.Socket(name, &sio.ClientSocketConfig{Auth: map[string]any{"c": c.ID}})
					type resp struct {
						kind string
						err  any
						sid  string
					}
					ch := make(chan resp, 4)
					s.OnConnect(func() { ch <- resp{kind: "connect", sid: string(s.ID())} })
					s.OnConnectError(func(err any) { ch <- resp{kind: "connect_error", err: err} })
					<-start
					s.Connect()
					select {
					case rp := <-ch:
						c.Resp = rp.kind
						c.RespNsp = true
						if rp.kind == "connect" {
							r.mu.Lock()
							if r.bySid[rp.sid] == nil {
								r.bySid[rp.sid] = c
							}
							seen := len(r.hobs[rp.sid]) > 0
							r.mu.Unlock()
							c.mu.Lock()
							if !containsStr(c.Sids, rp.sid) {
								c.Sids = append(c.Sids, rp.sid)
							}
							c.RespSid = len(c.Sids) == 1 && c.Sids[0] == rp.sid
							c.mu.Unlock()
							if seen {
								c.signalHandler()
							}
							select {
							case <-c.hch:
								c.HWaited = true
							case <-time.After(mwWait):
							}
							pch := make(chan int, 4)
							s.OnEvent("probe", func(n int) { pch <- n })
							r.nsp.To(sio.Room(rp.sid)).Emit("probe", c.ID)
							select {
							case n := <-pch:
								c.Probe = n == c.ID
							case <-time.After(mwWait):
							}
						} else {
							// the Go client turns a string message into an error, anything else is passed on
							var body []byte
							if e, ok := rp.err.(error); ok {
								body, _ = json.Marshal(map[string]any{"message": e.Error()})
							} else {
								body, _ = json.Marshal(map[string]any{"message": rp.err})
							}
							c.MsgKind, c.MsgMw, c.MsgCode = classifyMessage(string(body), c.ID)
						}
					case <-time.After(mwWait):
						c.Resp = "timeout"
					}
					c.Post = r.postView(c)
				}()
			}
			close(start)
			wg.Wait()
			for _, c := range all {
				c.Final = r.postView(c)
				r.mu.Lock()
				for _, sid := range c.Sids {
					c.Handler = append(c.Handler, r.hobs[sid]...)
					c.AnyH += r.anyh[sid]
					delete(r.hobs, sid)
				}
				r.mu.Unlock()
				out.Put(c)
			}
			r.mu.Lock()
			for _, s := range r.stray {
				out.Put(map[string]any{"suite": "stray", "nsp": name, "k": k, "what": s})
			}
			for sid := range r.hobs {
				out.Put(map[string]any{"suite": "stray", "nsp": name, "k": k, "what": "connection handler ran for a socket no case knows: " + sid})
			}
			r.mu.Unlock()
			for _, m := range managers {
				m.Close()
			}
			r.close()
		}
	}
	return nil
}

// ---------------------------------------------------------------- event middlewares

type evCall struct {
	Idx  int      `json:"idx"` // middleware index / handler index
	Name string   `json:"name"`
	Args []string `json:"args"` // "s:<string>", "i:<int>", "func", "?:<type>"
}

type evCase struct {
	ID      int      `json:"id"`
	Suite   string   `json:"suite"`
	Nsp     string   `json:"nsp"`
	Sig     string   `json:"sig"`   // event under test (names the handler signature)
	Chain   []int    `json:"chain"` // per event middleware: 0 accept, 1 reject
	WithAck bool     `json:"with_ack"`
	ArgS    string   `json:"arg_s"`
	ArgN    int      `json:"arg_n"`
	Sent    []string `json:"sent"` // arguments the client emitted, same notation as evCall.Args

	Mw      []evCall `json:"mw"`       // middleware calls in order
	H       []evCall `json:"h"`        // handler calls in order
	Errs    []string `json:"errs"`     // ServerSocket.OnError texts
	Ack     []string `json:"ack"`      // acknowledgement payloads received by the client
	Done    string   `json:"done"`     // "ok" | "timeout" | "noconnect"
	AckDone string   `json:"ack_done"` // "ok" | "timeout" | "n/a"
	NH      int      `json:"nh"`       // handlers registered for the event
	Retries int      `json:"retries"`  // connection closed by the server before anything was observed
	Note    string   `json:"note,omitempty"`

	mu    sync.Mutex
	term  chan struct{}
	ackCh chan string
}

func fmtArg(v any) string {
	switch x := v.(type) {
	case string:
		return "s:" + x
	case int:
		return "i:" + strconv.Itoa(x)
	case float64:
		return "f:" + strconv.FormatFloat(x, 'g', -1, 64)
	case nil:
		return "nil"
	}
	s := fmt.Sprintf("%T", v)
	if strings.HasPrefix(s, "func") {
		return "func"
	}
	return "?:" + s
}

var evSigs = []string{"none", "greet", "num", "pair", "npair", "ackS", "ackN", "ack0", "dup", "badtype"}

func evHandlers(sig string) int {
	if sig == "dup" {
		return 2
	}
	return 1
}

func (c *evCase) hcall(idx int, args ...any) {
	c.mu.Lock()
	a := make([]string, len(args))
	for i, x := range args {
		a[i] = fmtArg(x)
	}
	c.H = append(c.H, evCall{Idx: idx, Name: c.Sig, Args: a})
	c.mu.Unlock()
	c.term <- struct{}{}
}

func (c *evCase) install(socket sio.ServerSocket) {
	for i := range c.Chain {
		i := i
		socket.Use(func(eventName string, v ...any) error {
			a := make([]string, len(v))
			for j, x := range v {
				a[j] = fmtArg(x)
			}
			c.mu.Lock()
			c.Mw = append(c.Mw, evCall{Idx: i, Name: eventName, Args: a})
			rej := c.Chain[i] == 1
			c.mu.Unlock()
			if rej {
				return fmt.Errorf("rejected by event middleware %d", i)
			}
			return nil
		})
	}
	socket.OnError(func(err error) {
		c.mu.Lock()
		c.Errs = append(c.Errs, err.Error())
		c.mu.Unlock()
		c.term <- struct{}{}
	})
	switch c.Sig {
	case "none":
		socket.OnEvent("none", func() { c.hcall(0) })
	case "greet":
		socket.OnEvent("greet", func(s string) { c.hcall(0, s) })
	case "num":
		socket.OnEvent("num", func(n int) { c.hcall(0, n) })
	case "badtype":
		socket.OnEvent("badtype", func(n int) { c.hcall(0, n) })
	case "pair":
		socket.OnEvent("pair", func(s string, n int) { c.hcall(0, s, n) })
	case "npair":
		socket.OnEvent("npair", func(n int, s string) { c.hcall(0, n, s) })
	case "ackS":
		socket.OnEvent("ackS", func(s string, ack func(string)) {
			if ack != nil {
				ack(s + "!")
			}
			c.hcall(0, s)
		})
	case "ackN":
		socket.OnEvent("ackN", func(n int, ack func(int)) {
			if ack != nil {
				ack(n + 1)
			}
			c.hcall(0, n)
		})
	case "ack0":
		socket.OnEvent("ack0", func(ack func(string)) {
			if ack != nil {
				ack("ok")
			}
			c.hcall(0)
		})
	case "dup":
		socket.OnEvent("dup", func(s string) { c.hcall(0, s) })
		socket.OnEvent("dup", func(s string) { c.hcall(1, s) })
	}
}

func (c *evCase) emit(s sio.ClientSocket, ackCh chan string) {
	ackS := func(r string) { ackCh <- "s:" + r }
	ackN := func(r int) { ackCh <- "i:" + strconv.Itoa(r) }
	switch c.Sig {
	case "none":
		c.Sent = []string{}
		s.Emit("none")
	case "greet", "dup":
		c.Sent = []string{"s:" + c.ArgS}
		s.Emit(c.Sig, c.ArgS)
	case "badtype":
		c.Sent = []string{"s:" + c.ArgS}
		s.Emit("badtype", c.ArgS)
	case "num":
		c.Sent = []string{"i:" + strconv.Itoa(c.ArgN)}
		s.Emit("num", c.ArgN)
	case "pair":
		c.Sent = []string{"s:" + c.ArgS, "i:" + strconv.Itoa(c.ArgN)}
		s.Emit("pair", c.ArgS, c.ArgN)
	case "npair":
		c.Sent = []string{"i:" + strconv.Itoa(c.ArgN), "s:" + c.ArgS}
		s.Emit("npair", c.ArgN, c.ArgS)
	case "ackS":
		c.Sent = []string{"s:" + c.ArgS}
		if c.WithAck {
			s.Emit("ackS", c.ArgS, ackS)
		} else {
			s.Emit("ackS", c.ArgS)
		}
	case "ackN":
		c.Sent = []string{"i:" + strconv.Itoa(c.ArgN)}
		if c.WithAck {
			s.Emit("ackN", c.ArgN, ackN)
		} else {
			s.Emit("ackN", c.ArgN)
		}
	case "ack0":
		c.Sent = []string{}
		if c.WithAck {
			s.Emit("ack0", ackS)
		} else {
			s.Emit("ack0")
		}
	}
}

func evChains(maxLen int) [][]int {
	res := [][]int{}
	cur := [][]int{{}}
	for l := 0; l <= maxLen; l++ {
		res = append(res, cur...)
		var nx [][]int
		for _, v := range cur {
			nx = append(nx, append(append([]int{}, v...), 0), append(append([]int{}, v...), 1))
		}
		cur = nx
	}
	return res
}

func evMain(out *vk.Out, rnd *vk.Rand, maxLen int) error {
	for _, name := range []string{"/", "/chat"} {
		cfg := &sio.ServerConfig{}
		cfg.EIO.WebSocketAcceptOptions = &websocket.AcceptOptions{CompressionMode: websocket.CompressionDisabled}
		srv := sio.NewServer(cfg)
		if err := srv.Run(); err != nil {
			return err
		}
		var mu sync.Mutex
		cases := map[int]*evCase{}
		nsp := srv.Of(name)
		// the namespace middleware is where the per-socket configuration is installed: it sees the
		// handshake (case id) and the socket, and runs before the client can emit anything
		nsp.Use(func(socket sio.ServerSocket, hs *sio.Handshake) any {
			var a struct {
				C *int `json:"c"`
			}
			if json.Unmarshal(hs.Auth, &a) != nil || a.C == nil {
				return fmt.Errorf("no case")
			}
			mu.Lock()
			c := cases[*a.C]
			mu.Unlock()
			if c == nil {
				return fmt.Errorf("unknown case")
			}
			c.install(socket)
			return nil
		})
		// The CONNECT packet is sent before the connection enters the connection's own tables, and an
		// event arriving in that window makes the server close the connection (not this property's
		// subject).  The client therefore emits only after a server-side "ready" event, which is
		// sent from the connection handler, and a case whose connection was closed without any
		// observation is repeated on a fresh connection (counted, never hidden).
		nsp.OnConnection(func(socket sio.ServerSocket) { socket.Emit("ready") })
		ts := httptest.NewServer(srv)
		var all []*evCase
		id := 0
		for _, sig := range evSigs {
			for _, ch := range evChains(maxLen) {
				acks := []bool{false}
				if strings.HasPrefix(sig, "ack") {
					acks = []bool{false, true}
				}
				for _, wa := range acks {
					c := &evCase{ID: id, Suite: "ev", Nsp: name, Sig: sig, Chain: ch, WithAck: wa,
						ArgS: "w" + strconv.Itoa(rnd.Intn(100000)), ArgN: rnd.Intn(2000000) - 1000000,
						Mw: []evCall{}, H: []evCall{}, Errs: []string{}, Ack: []string{}, Sent: []string{},
						NH: evHandlers(sig), term: make(chan struct{}, 64)}
					id++
					all = append(all, c)
					cases[c.ID] = c
				}
			}
		}
		const conc = 8
		var managers []*sio.Manager
		var mmu sync.Mutex
		sem := make(chan struct{}, conc)
		var wg sync.WaitGroup
		for _, c := range all {
			c := c
			wg.Add(1)
			sem <- struct{}{}
			go func() {
				defer wg.Done()
				defer func() { <-sem }()
			again:
				m := goManager(ts.URL)
				mmu.Lock()
				managers = append(managers, m)
				mmu.Unlock()
				s := m.Socket(name, &sio.ClientSocketConfig{Auth: map[string]any{"c": c.ID}})
				conn := make(chan bool, 2)
				gone := make(chan struct{}, 2)
				s.OnConnectError(func(err any) { conn <- false })
				s.OnDisconnect(func(reason sio.Reason) { gone <- struct{}{} })
				s.OnEvent("ready", func() { conn <- true })
				s.Connect()
				select {
				case ok := <-conn:
					if !ok {
						c.Done = "noconnect"
						return
					}
				case <-time.After(mwWait):
					c.Done = "noconnect"
					return
				}
				ackCh := make(chan string, 8)
				c.ackCh = ackCh
				c.emit(s, ackCh)
				// every handler's pass over the packet ends in exactly one of: handler call, error callback
				c.Done = "ok"
				deadline := time.After(mwWait)
				for got := 0; got < c.NH && c.Done == "ok"; {
					select {
					case <-c.term:
						got++
					case <-gone:
						c.Done = "lost"
					case <-deadline:
						c.Done = "timeout"
					}
				}
				if c.Done == "lost" {
					c.mu.Lock()
					blank := len(c.Mw) == 0 && len(c.H) == 0 && len(c.Errs) == 0
					c.mu.Unlock()
					if blank && c.Retries < 3 {
						c.Retries++
						goto again
					}
				}
				c.AckDone = "n/a"
				c.mu.Lock()
				delivered := len(c.H) > 0
				c.mu.Unlock()
				if c.WithAck && delivered {
					select {
					case a := <-ackCh:
						c.Ack = append(c.Ack, a)
						c.AckDone = "ok"
					case <-time.After(mwWait):
						c.AckDone = "timeout"
					}
				}
			}()
		}
		wg.Wait()
		// everything that could still be in flight has had the whole run to arrive; the records are
		// read once more here ("a rejected event never reaches the handler" is a never-claim)
		for _, c := range all {
			c.mu.Lock()
			for c.ackCh != nil {
				select {
				case a := <-c.ackCh:
					c.Ack = append(c.Ack, a)
					continue
				default:
				}
				break
			}
			out.Put(c)
			c.mu.Unlock()
		}
		for _, m := range managers {
			m.Close()
		}
		srv.Close()
		ts.Close()
	}
	return nil
}

// ---------------------------------------------------------------- forced window (mode win)
//
// Socket A is parked inside middleware g of its chain (a gate in the middleware is the window).
// While it is parked: a namespace-wide broadcast (tick 1), a second client B goes through its whole
// admission, another broadcast (tick 2), views of A and B from outside.  Then A is released, and a
// last broadcast (tick 3) follows.  Which ticks reach which raw peer, and the views, are compared
// with the model run under the same schedule.

type winCase struct {
	ID    int    `json:"id"`
	Suite string `json:"suite"`
	Nsp   string `json:"nsp"`
	K     int    `json:"k"`
	G     int    `json:"g"`  // A is parked at the entry of middleware g
	VA    []int  `json:"va"` // verdict codes of the chain for A (accept before g)
	VB    []int  `json:"vb"`
	JA    []int  `json:"ja"`
	JB    []int  `json:"jb"`

	RespA  string  `json:"resp_a"`
	RespB  string  `json:"resp_b"`
	RecvA  []int   `json:"recv_a"` // ticks received by A's connection
	RecvB  []int   `json:"recv_b"`
	MidA   viewObs `json:"mid_a"` // after B finished, A still parked
	MidB   viewObs `json:"mid_b"`
	EndA   viewObs `json:"end_a"`
	EndB   viewObs `json:"end_b"`
	CallsA []int   `json:"calls_a"`
	CallsB []int   `json:"calls_b"`
	Parked bool    `json:"parked"` // the gate was reached
	Note   string  `json:"note,omitempty"`
}

type winSock struct {
	mu    sync.Mutex
	v, j  []int
	calls []int
	sid   string
	sock  sio.ServerSocket
	gate  int // -1: none
	at    chan struct{}
	open  chan struct{}
}

func collectTicks(p *rawPeer, nsp string, until int, d time.Duration) []int {
	got := []int{}
	for {
		pk, st := p.wait(nsp, d, 2)
		if st != "ok" {
			return got
		}
		var arr []json.RawMessage
		if json.Unmarshal([]byte(pk.body), &arr) != nil || len(arr) != 2 {
			continue
		}
		var name string
		var n int
		json.Unmarshal(arr[0], &name)
		json.Unmarshal(arr[1], &n)
		if name != "tick" {
			continue
		}
		got = append(got, n)
		if n == until {
			return got
		}
	}
}

func winMain(out *vk.Out, rnd *vk.Rand, maxLen int) error {
	id := 0
	for _, name := range []string{"/", "/chat"} {
		for k := 1; k <= maxLen; k++ {
			cfg := &sio.ServerConfig{}
			cfg.EIO.WebSocketAcceptOptions = &websocket.AcceptOptions{CompressionMode: websocket.CompressionDisabled}
			srv := sio.NewServer(cfg)
			if err := srv.Run(); err != nil {
				return err
			}
			nsp := srv.Of(name)
			var mu sync.Mutex
			socks := map[int]*winSock{}
			for i := 0; i < k; i++ {
				i := i
				nsp.Use(func(socket sio.ServerSocket, hs *sio.Handshake) any {
					var a struct {
						C *int `json:"c"`
					}
					if json.Unmarshal(hs.Auth, &a) != nil || a.C == nil {
						return fmt.Errorf("no case")
					}
					mu.Lock()
					w := socks[*a.C]
					mu.Unlock()
					if w == nil {
						return fmt.Errorf("unknown case")
					}
					w.mu.Lock()
					w.calls = append(w.calls, i)
					w.sid = string(socket.ID())
					w.sock = socket
					gate := w.gate == i
					w.mu.Unlock()
					if gate {
						close(w.at)
						<-w.open
					}
					switch w.j[i] {
					case 1:
						socket.Join(sio.Room("r" + strconv.Itoa(i)))
					case 2:
						socket.Join()
					case 3:
						socket.Join(sio.Room("r"+strconv.Itoa(i)), sio.Room("shared"))
					}
					switch w.v[i] {
					case 1:
						return fmt.Errorf("E:%d:%d:1", *a.C, i)
					case 2:
						return fmt.Sprintf("S:%d:%d:2", *a.C, i)
					case 3:
						return &rejData{Case: *a.C, Mw: i, Code: 3, Why: "structured"}
					}
					return nil
				})
			}
			hdone := map[string]chan struct{}{}
			nsp.OnConnection(func(socket sio.ServerSocket) {
				mu.Lock()
				ch := hdone[string(socket.ID())]
				if ch == nil {
					ch = make(chan struct{})
					hdone[string(socket.ID())] = ch
				}
				mu.Unlock()
				close(ch)
			})
			waitHandler := func(sid string) {
				mu.Lock()
				ch := hdone[sid]
				if ch == nil {
					ch = make(chan struct{})
					hdone[sid] = ch
				}
				mu.Unlock()
				select {
				case <-ch:
				case <-time.After(mwWait):
				}
			}
			ts := httptest.NewServer(srv)
			var peers []*rawPeer
			for g := 0; g < k; g++ {
				for _, va := range enumVectors(k) {
					if !isAccept(va[:g]) {
						continue
					}
					for _, vb := range [][]int{make([]int, k), append([]int{1 + rnd.Intn(3)}, make([]int, k-1)...)} {
						c := &winCase{ID: id, Suite: "win", Nsp: name, K: k, G: g, VA: va, VB: vb,
							JA: make([]int, k), JB: make([]int, k), RecvA: []int{}, RecvB: []int{}, CallsA: []int{}, CallsB: []int{}}
						for i := 0; i < k; i++ {
							c.JA[i], c.JB[i] = rnd.Intn(4), rnd.Intn(4)
						}
						wa := &winSock{v: va, j: c.JA, gate: g, at: make(chan struct{}), open: make(chan struct{})}
						wb := &winSock{v: vb, j: c.JB, gate: -1}
						ida, idb := 2*id, 2*id+1
						id++
						mu.Lock()
						socks[ida], socks[idb] = wa, wb
						mu.Unlock()
						pa, err := dialRaw(ts.URL)
						if err != nil {
							c.Note = "dial: " + err.Error()
							out.Put(c)
							continue
						}
						pb, err := dialRaw(ts.URL)
						if err != nil {
							c.Note = "dial: " + err.Error()
							out.Put(c)
							continue
						}
						peers = append(peers, pa, pb)
						pa.sendText(connectText(name, ida))
						select {
						case <-wa.at:
							c.Parked = true
						case <-time.After(mwWait):
						}
						nsp.Emit("tick", 1)
						pb.sendText(connectText(name, idb))
						pkb, st := pb.wait(name, mwWait, 0, 4)
						bAdmitted := false
						if st == "ok" && pkb.typ == 0 {
							c.RespB = "connect"
							bAdmitted = true
							var info struct {
								SID string `json:"sid"`
							}
							json.Unmarshal([]byte(pkb.body), &info)
							wb.mu.Lock()
							wb.sid = info.SID
							wb.mu.Unlock()
							waitHandler(info.SID)
						} else if st == "ok" {
							c.RespB = "connect_error"
						} else {
							c.RespB = st
						}
						nsp.Emit("tick", 2)
						wa.mu.Lock()
						sidA, sockA := wa.sid, wa.sock
						wa.mu.Unlock()
						wb.mu.Lock()
						sidB, sockB := wb.sid, wb.sock
						wb.mu.Unlock()
						if sidA != "" {
							c.MidA = observe(nsp, sockA, sidA, -1, k)
						}
						if sidB != "" {
							c.MidB = observe(nsp, sockB, sidB, -1, k)
						}
						close(wa.open)
						pka, st := pa.wait(name, mwWait, 0, 4)
						aAdmitted := false
						if st == "ok" && pka.typ == 0 {
							c.RespA = "connect"
							aAdmitted = true
							waitHandler(sidA)
						} else if st == "ok" {
							c.RespA = "connect_error"
						} else {
							c.RespA = st
						}
						nsp.Emit("tick", 3)
						// an admitted peer receives tick 3 after every earlier tick that was sent to it
						if aAdmitted {
							c.RecvA = collectTicks(pa, name, 3, mwWait)
						}
						if bAdmitted {
							c.RecvB = collectTicks(pb, name, 3, mwWait)
						}
						if sidA != "" {
							c.EndA = observe(nsp, sockA, sidA, -1, k)
						}
						if sidB != "" {
							c.EndB = observe(nsp, sockB, sidB, -1, k)
						}
						wa.mu.Lock()
						c.CallsA = append(c.CallsA, wa.calls...)
						wa.mu.Unlock()
						wb.mu.Lock()
						c.CallsB = append(c.CallsB, wb.calls...)
						wb.mu.Unlock()
						// a peer that was never admitted must not have received any EVENT at all
						if !aAdmitted {
							pa.mu.Lock()
							for i := 0; i < pa.events; i++ {
								c.RecvA = append(c.RecvA, 99)
							}
							pa.mu.Unlock()
						}
						if !bAdmitted {
							pb.mu.Lock()
							for i := 0; i < pb.events; i++ {
								c.RecvB = append(c.RecvB, 99)
							}
							pb.mu.Unlock()
						}
						// leave the namespace so that later cases' ticks do not pile up
						pa.sock.Close()
						pb.sock.Close()
						fixView(&c.MidA)
						fixView(&c.MidB)
						fixView(&c.EndA)
						fixView(&c.EndB)
						out.Put(c)
					}
				}
			}
			srv.Close()
			ts.Close()
		}
	}
	return nil
}

func fixView(v *viewObs) {
	if v.Rooms == nil {
		v.Rooms = []string{}
	}
	if v.ReachVia == nil {
		v.ReachVia = []string{}
	}
}
