package main

// order: live rigs for property C02 (per-emitter order, frame contiguity).  Public API only.
//
// mode wire:    a real Socket.IO endpoint (client or server) emits from 1..16 goroutines; the peer is
//               a RAW Engine.IO endpoint built from the repo's eio package which records every
//               Engine.IO packet in the order OnPacket delivers it (MESSAGE frames text+binary and
//               control packets) and feeds the MESSAGE frames to a reference decoder (the repo's
//               parser/json Parser.Add), recording which packet finishes when, with which
//               attachments.  Every event carries (emitter, seq) as JSON numbers and 0..4 binary
//               attachments whose bytes carry (emitter, seq, index, count).
// mode handler: Socket.IO <-> Socket.IO; the receiving application's handlers record their entry
//               order as (emitter, seq).
//
// One JSON row per scenario.  All identifiers of this file start with ord.

import (
	"flag"
	"fmt"
	"net/http"
	"net/http/httptest"
	"reflect"
	"runtime"
	"strings"
	"sync"
	"sync/atomic"
	"time"

	sio "github.com/karagenc/socket.io-go"
	eio "github.com/karagenc/socket.io-go/engine.io"
	eioparser "github.com/karagenc/socket.io-go/engine.io/parser"
	"github.com/karagenc/socket.io-go/parser"
	jsonparser "github.com/karagenc/socket.io-go/parser/json"
	"github.com/karagenc/socket.io-go/parser/json/serializer/stdjson"
	"nhooyr.io/websocket"

	"verifharness/vk"
)

func init() { register("order", ordMain) }

type ordPkt struct {
	Hdr  []int   `json:"hdr"`
	Atts [][]int `json:"atts"`
}

type ordWire struct {
	T int   `json:"t"` // Engine.IO packet type (4 = MESSAGE)
	B bool  `json:"b"` // IsBinary
	D []int `json:"d"` // data (MESSAGE only)
}

type ordFin struct {
	E    int     `json:"e"`
	S    int     `json:"s"`
	Atts [][]int `json:"atts"`
	Err  string  `json:"err,omitempty"`
}

type ordRow struct {
	Mode      string     `json:"mode"`
	Dir       string     `json:"dir"`       // c2s | s2c
	Transport string     `json:"transport"` // polling | websocket | upgrade
	N         int        `json:"n"`
	Seed      uint64     `json:"seed"`
	Progs     [][]ordPkt `json:"progs,omitempty"`   // wire: reference encoding of every emitted packet
	Wire      []ordWire  `json:"wire,omitempty"`    // wire: what the raw peer's OnPacket saw, in order
	Batches   []int      `json:"batches,omitempty"` // wire: sizes of the OnPacket calls
	Finished  []ordFin   `json:"finished,omitempty"`
	Bursts    []int      `json:"bursts"`
	AttCounts [][]int    `json:"attcounts"`
	Entries   [][2]int   `json:"entries,omitempty"` // handler: (emitter, seq) at handler entry, in order
	Complete  bool       `json:"complete"`
	EnvErr    string     `json:"enverr,omitempty"`
	Class     string     `json:"class,omitempty"` // harness-side classification of a handler-order failure
	Inv       int        `json:"inversions"`
	TrName    string     `json:"trname,omitempty"`
	ParseErr  string     `json:"parseerr,omitempty"`
	Pre       []int      `json:"pre,omitempty"`
	Window    bool       `json:"window,omitempty"`
	Ms        int64      `json:"ms"`
}

type ordScenario struct {
	dir, transport string
	n              int
	bursts         []int
	atts           [][]int
	seed           uint64
	pingMs         int
	paceUs         int   // pause between two emits of one emitter (0 = none)
	window         bool  // connrace: emitter 0 emits two events from inside the window between `Connected` and the flush (a buffered received event's handler holds emitBuffered there)
	pre            []int // connrace: how many of its events emitter e emits before the CONNECT reply is released (-1: waits for Connected())
}

func ordTransports(t string) []string {
	switch t {
	case "polling":
		return []string{"polling"}
	case "websocket":
		return []string{"websocket"}
	}
	return []string{"polling", "websocket"}
}

// attachment payload: identifies (emitter, seq, index, count) + seeded padding of varying length
func ordAtt(e, s, idx, k int, r *vk.Rand) []byte {
	b := []byte{byte(e), byte(s >> 8), byte(s), byte(idx), byte(k)}
	pad := 0
	switch r.Intn(8) {
	case 0:
		pad = 40 + r.Intn(200)
	case 1, 2:
		pad = r.Intn(12)
	}
	for i := 0; i < pad; i++ {
		b = append(b, byte(r.U64()))
	}
	return b
}

func ordArgs(e, s int, atts [][]byte) []any {
	v := []any{e, s}
	for _, a := range atts {
		v = append(v, sio.Binary(a))
	}
	return v
}

// reference encoding of emit("e", e, s, atts...) on namespace "/" without ack
func ordEncode(e, s int, atts [][]byte) (ordPkt, error) {
	p := jsonparser.NewCreator(0, stdjson.New())()
	v := append([]any{"e"}, ordArgs(e, s, atts)...)
	cp := make([]any, len(v))
	for i, x := range v {
		if b, ok := x.(sio.Binary); ok {
			c := make(sio.Binary, len(b))
			copy(c, b)
			cp[i] = c
		} else {
			cp[i] = x
		}
	}
	h := &parser.PacketHeader{Type: parser.PacketTypeEvent, Namespace: "/"}
	bufs, err := p.Encode(h, &cp)
	if err != nil {
		return ordPkt{}, err
	}
	out := ordPkt{Hdr: vk.Ints(bufs[0]), Atts: [][]int{}}
	for _, b := range bufs[1:] {
		out.Atts = append(out.Atts, vk.Ints(b))
	}
	return out, nil
}

// recorder = the raw Engine.IO peer's OnPacket + reference decoder
type ordRecorder struct {
	mu        sync.Mutex
	recording bool
	wire      []ordWire
	batches   []int
	fin       []ordFin
	nfin      int32
	par       parser.Parser
	parseErr  string
	onFirst   func(data []byte) // called (outside recording) for MESSAGE frames before recording starts
}

func ordNewRecorder() *ordRecorder {
	return &ordRecorder{par: jsonparser.NewCreator(0, stdjson.New())()}
}

var ordIntT = reflect.TypeOf(new(int))
var ordBinT = reflect.TypeOf(new(sio.Binary))

func (r *ordRecorder) onPacket(packets ...*eioparser.Packet) {
	r.mu.Lock()
	defer r.mu.Unlock()
	if r.recording {
		r.batches = append(r.batches, len(packets))
	}
	for _, p := range packets {
		if r.recording {
			w := ordWire{T: int(p.Type), B: p.IsBinary}
			if p.Type == eioparser.PacketTypeMessage {
				w.D = vk.Ints(p.Data)
			}
			r.wire = append(r.wire, w)
		}
		if p.Type != eioparser.PacketTypeMessage {
			continue
		}
		rec := r.recording
		if !r.recording {
			if r.onFirst != nil {
				r.onFirst(p.Data)
			}
			if len(p.Data) > 0 && p.Data[0] != '5' && p.Data[0] != '2' {
				// connection set-up traffic still goes through the reference decoder
			}
		}
		data := append([]byte(nil), p.Data...)
		err := r.par.Add(data, func(h *parser.PacketHeader, ev string, dec parser.Decode) {
			if !rec {
				return
			}
			f := ordFin{E: -1, S: -1, Atts: [][]int{}}
			types := []reflect.Type{ordIntT, ordIntT}
			for i := 0; i < h.Attachments; i++ {
				types = append(types, ordBinT)
			}
			vals, err := dec(types...)
			if err != nil {
				f.Err = err.Error()
			} else if len(vals) >= 2 {
				f.E = *(vals[0].Interface().(*int))
				f.S = *(vals[1].Interface().(*int))
				for _, v := range vals[2:] {
					f.Atts = append(f.Atts, vk.Ints([]byte(*(v.Interface().(*sio.Binary)))))
				}
			} else {
				f.Err = fmt.Sprintf("decode returned %d values", len(vals))
			}
			r.fin = append(r.fin, f)
			atomic.AddInt32(&r.nfin, 1)
		})
		if err != nil && r.parseErr == "" {
			r.parseErr = err.Error()
			r.par.Reset()
		}
	}
}

func (r *ordRecorder) start() {
	r.mu.Lock()
	r.recording = true
	r.mu.Unlock()
}

func ordWaitFor(cond func() bool, d time.Duration) bool {
	end := time.Now().Add(d)
	for time.Now().Before(end) {
		if cond() {
			return true
		}
		time.Sleep(2 * time.Millisecond)
	}
	return cond()
}

type ordEmitter interface {
	Emit(eventName string, v ...any)
}

// run the bursts: n goroutines, released together
func ordEmitAll(sc *ordScenario, sock ordEmitter, payloads [][][][]byte, evName func(k int) string) {
	var wg sync.WaitGroup
	start := make(chan struct{})
	for e := 0; e < sc.n; e++ {
		wg.Add(1)
		go func(e int) {
			defer wg.Done()
			<-start
			for s := 0; s < sc.bursts[e]; s++ {
				atts := payloads[e][s]
				cp := make([][]byte, len(atts))
				for i := range atts {
					cp[i] = append([]byte(nil), atts[i]...)
				}
				sock.Emit(evName(len(atts)), ordArgs(e, s, cp)...)
				if sc.paceUs > 0 {
					time.Sleep(time.Duration(sc.paceUs) * time.Microsecond)
				}
			}
		}(e)
	}
	close(start)
	wg.Wait()
}

func ordPayloads(sc *ordScenario) [][][][]byte {
	r := vk.NewRand(sc.seed ^ 0xa77)
	out := make([][][][]byte, sc.n)
	for e := 0; e < sc.n; e++ {
		out[e] = make([][][]byte, sc.bursts[e])
		for s := 0; s < sc.bursts[e]; s++ {
			k := sc.atts[e][s]
			for i := 0; i < k; i++ {
				out[e][s] = append(out[e][s], ordAtt(e, s, i, k, r))
			}
		}
	}
	return out
}

func ordTotal(sc *ordScenario) int {
	t := 0
	for _, b := range sc.bursts {
		t += b
	}
	return t
}

var ordWSAccept = &websocket.AcceptOptions{CompressionMode: websocket.CompressionDisabled}
var ordWSDial = &websocket.DialOptions{CompressionMode: websocket.CompressionDisabled}

// ordGate holds HTTP round trips (the websocket handshake of the upgrade) until it is opened.
type ordGate struct {
	base http.RoundTripper
	open chan struct{}
}

func (g *ordGate) RoundTrip(req *http.Request) (*http.Response, error) {
	<-g.open
	return g.base.RoundTrip(req)
}

// ------------------------------------------------------------------ wire rig

func ordWireRun(sc *ordScenario) (row ordRow) {
	t0 := time.Now()
	row = ordRow{Mode: "wire", Dir: sc.dir, Transport: sc.transport, N: sc.n, Seed: sc.seed,
		Bursts: sc.bursts, AttCounts: sc.atts}
	defer func() { row.Ms = time.Since(t0).Milliseconds() }()
	payloads := ordPayloads(sc)
	for e := 0; e < sc.n; e++ {
		var l []ordPkt
		for s := 0; s < sc.bursts[e]; s++ {
			p, err := ordEncode(e, s, payloads[e][s])
			if err != nil {
				row.EnvErr = "reference encode: " + err.Error()
				return
			}
			l = append(l, p)
		}
		row.Progs = append(row.Progs, l)
	}
	rec := ordNewRecorder()
	ping := time.Second // the smallest interval the Engine.IO server accepts
	upgraded := make(chan string, 4)
	total := ordTotal(sc)

	if sc.dir == "c2s" {
		// raw Engine.IO server  <-  real Socket.IO client
		var rawSock eio.ServerSocket
		gotConnect := make(chan struct{}, 1)
		srv := eio.NewServer(func(s eio.ServerSocket) *eio.Callbacks {
			rawSock = s
			return &eio.Callbacks{OnPacket: rec.onPacket}
		}, &eio.ServerConfig{PingInterval: ping, PingTimeout: 20 * time.Second, WebSocketAcceptOptions: ordWSAccept})
		rec.onFirst = func(data []byte) {
			if len(data) > 0 && data[0] == '0' {
				select {
				case gotConnect <- struct{}{}:
				default:
				}
			}
		}
		if err := srv.Run(); err != nil {
			row.EnvErr = "eio server run: " + err.Error()
			return
		}
		ts := httptest.NewServer(srv)
		defer ts.Close()
		defer srv.Close()
		cfg := &sio.ManagerConfig{NoReconnection: true}
		cfg.EIO.Transports = ordTransports(sc.transport)
		cfg.EIO.WebSocketDialOptions = ordWSDial
		cfg.EIO.UpgradeDone = func(name string) { upgraded <- name }
		m := sio.NewManager(ts.URL, cfg)
		sock := m.Socket("/", nil)
		connected := make(chan struct{}, 1)
		sock.OnConnect(func() {
			select {
			case connected <- struct{}{}:
			default:
			}
		})
		sock.Connect()
		defer m.Close()
		select {
		case <-gotConnect:
		case <-time.After(10 * time.Second):
			row.EnvErr = "no CONNECT packet from the client"
			return
		}
		reply, _ := eioparser.NewPacket(eioparser.PacketTypeMessage, false, []byte(`0{"sid":"ordRawPeer0000000001"}`))
		rawSock.Send(reply)
		select {
		case <-connected:
		case <-time.After(10 * time.Second):
			row.EnvErr = "client did not connect"
			return
		}
		if sc.transport == "upgrade" {
			select {
			case <-upgraded:
			case <-time.After(10 * time.Second):
				row.EnvErr = "no upgrade"
				return
			}
			time.Sleep(150 * time.Millisecond)
		}
		row.TrName = rawSock.TransportName()
		rec.start()
		ordEmitAll(sc, sock, payloads, func(int) string { return "e" })
	} else {
		// real Socket.IO server  ->  raw Engine.IO client
		scfg := &sio.ServerConfig{}
		scfg.EIO.PingInterval = ping
		scfg.EIO.PingTimeout = 20 * time.Second
		scfg.EIO.WebSocketAcceptOptions = ordWSAccept
		io := sio.NewServer(scfg)
		sockCh := make(chan sio.ServerSocket, 1)
		io.OnConnection(func(s sio.ServerSocket) { sockCh <- s })
		if err := io.Run(); err != nil {
			row.EnvErr = "sio server run: " + err.Error()
			return
		}
		ts := httptest.NewServer(io)
		defer ts.Close()
		defer io.Close()
		gotReply := make(chan struct{}, 1)
		rec.onFirst = func(data []byte) {
			if len(data) > 0 && data[0] == '0' {
				select {
				case gotReply <- struct{}{}:
				default:
				}
			}
		}
		dialOpts := ordWSDial
		var gate *ordGate
		if sc.transport == "upgrading" {
			// the websocket handshake of the upgrade is held back until the emitters are running: the
			// events emitted while the client probes are parked in the server's polling transport and
			// handed over to the websocket by upgradeTo while the emitters go on
			gate = &ordGate{base: http.DefaultTransport, open: make(chan struct{})}
			dialOpts = &websocket.DialOptions{CompressionMode: websocket.CompressionDisabled, HTTPClient: &http.Client{Transport: gate}}
		}
		raw, err := eio.Dial(ts.URL+"/socket.io/", &eio.Callbacks{OnPacket: rec.onPacket}, &eio.ClientConfig{
			Transports: ordTransports(sc.transport), WebSocketDialOptions: dialOpts,
			UpgradeDone: func(name string) { upgraded <- name }})
		if err != nil {
			row.EnvErr = "eio dial: " + err.Error()
			return
		}
		defer raw.Close()
		hello, _ := eioparser.NewPacket(eioparser.PacketTypeMessage, false, []byte("0"))
		raw.Send(hello)
		var ssock sio.ServerSocket
		select {
		case ssock = <-sockCh:
		case <-time.After(10 * time.Second):
			row.EnvErr = "server did not admit the raw client"
			return
		}
		select {
		case <-gotReply:
		case <-time.After(10 * time.Second):
			row.EnvErr = "no CONNECT reply"
			return
		}
		if sc.transport == "upgrade" {
			select {
			case <-upgraded:
			case <-time.After(10 * time.Second):
				row.EnvErr = "no upgrade"
				return
			}
			time.Sleep(300 * time.Millisecond)
		}
		if sc.transport == "upgrading" {
			rec.start()
			emitted := make(chan struct{})
			go func() {
				ordEmitAll(sc, ssock, payloads, func(int) string { return "e" })
				close(emitted)
			}()
			time.Sleep(time.Duration(2+sc.seed%4) * time.Millisecond)
			close(gate.open)
			select {
			case <-upgraded:
			case <-time.After(10 * time.Second):
				row.EnvErr = "no upgrade"
				<-emitted
				return
			}
			<-emitted
			row.TrName = raw.TransportName()
		} else {
			row.TrName = raw.TransportName()
			rec.start()
			ordEmitAll(sc, ssock, payloads, func(int) string { return "e" })
		}
	}
	row.Complete = ordWaitFor(func() bool {
		if int(atomic.LoadInt32(&rec.nfin)) >= total {
			return true
		}
		rec.mu.Lock()
		failed := rec.parseErr != "" // the reference decoder already rejected a frame: nothing more to wait for
		rec.mu.Unlock()
		return failed
	}, 30*time.Second) && int(atomic.LoadInt32(&rec.nfin)) >= total
	time.Sleep(30 * time.Millisecond) // stragglers (a duplicate would show up here)
	rec.mu.Lock()
	rec.recording = false
	row.Wire = rec.wire
	row.Batches = rec.batches
	row.Finished = rec.fin
	row.ParseErr = rec.parseErr
	rec.mu.Unlock()
	if row.Finished == nil {
		row.Finished = []ordFin{}
	}
	if row.Wire == nil {
		row.Wire = []ordWire{}
	}
	return
}

// ------------------------------------------------------------------ connect-race rig (wire level, client -> raw server)
//
// The second producer path into the connection's packet queue: packets emitted before the CONNECT
// reply are parked in the socket's sendBuffer and flushed by emitBuffered when the reply arrives,
// while other goroutines (the socket is `Connected` from that instant) emit directly.  The raw
// Engine.IO server holds the CONNECT reply back until every emitter has parked its share; emitters
// keep emitting without a pause across the reply (pre[e] >= 0) or spin on Connected() and then emit
// (pre[e] = -1).  Everything the raw peer receives after the CONNECT packet is recorded.
func ordConnRaceRun(sc *ordScenario) (row ordRow) {
	t0 := time.Now()
	row = ordRow{Mode: "connrace", Dir: "c2s", Transport: sc.transport, N: sc.n, Seed: sc.seed,
		Bursts: sc.bursts, AttCounts: sc.atts, Pre: sc.pre, Window: sc.window}
	defer func() { row.Ms = time.Since(t0).Milliseconds() }()
	payloads := ordPayloads(sc)
	for e := 0; e < sc.n; e++ {
		var l []ordPkt
		for s := 0; s < sc.bursts[e]; s++ {
			p, err := ordEncode(e, s, payloads[e][s])
			if err != nil {
				row.EnvErr = "reference encode: " + err.Error()
				return
			}
			l = append(l, p)
		}
		row.Progs = append(row.Progs, l)
	}
	rec := ordNewRecorder()
	total := ordTotal(sc)
	var rawSock eio.ServerSocket
	gotConnect := make(chan struct{}, 1)
	srv := eio.NewServer(func(s eio.ServerSocket) *eio.Callbacks {
		rawSock = s
		return &eio.Callbacks{OnPacket: rec.onPacket}
	}, &eio.ServerConfig{PingInterval: 20 * time.Second, PingTimeout: 20 * time.Second, WebSocketAcceptOptions: ordWSAccept})
	// the CONNECT packet is connection set-up, not an event: it starts the recording
	rec.onFirst = func(data []byte) {
		if len(data) > 0 && data[0] == '0' {
			rec.recording = true // called with rec.mu held
			select {
			case gotConnect <- struct{}{}:
			default:
			}
		}
	}
	if err := srv.Run(); err != nil {
		row.EnvErr = "eio server run: " + err.Error()
		return
	}
	ts := httptest.NewServer(srv)
	defer ts.Close()
	defer srv.Close()
	cfg := &sio.ManagerConfig{NoReconnection: true}
	cfg.EIO.Transports = ordTransports(sc.transport)
	cfg.EIO.WebSocketDialOptions = ordWSDial
	m := sio.NewManager(ts.URL, cfg)
	sock := m.Socket("/", nil)
	defer m.Close()

	winOpen := make(chan struct{})
	winDone := make(chan struct{})
	if sc.window {
		var once sync.Once
		sock.OnEvent("ordx", func() {
			once.Do(func() {
				close(winOpen)
				select {
				case <-winDone:
				case <-time.After(5 * time.Second):
				}
			})
		})
	}
	var parked sync.WaitGroup
	var wg sync.WaitGroup
	for e := 0; e < sc.n; e++ {
		wg.Add(1)
		if sc.pre[e] >= 0 {
			parked.Add(1)
		}
		go func(e int) {
			defer wg.Done()
			emit := func(s int) {
				atts := payloads[e][s]
				cp := make([][]byte, len(atts))
				for i := range atts {
					cp[i] = append([]byte(nil), atts[i]...)
				}
				sock.Emit("e", ordArgs(e, s, cp)...)
			}
			if sc.pre[e] < 0 {
				end := time.Now().Add(20 * time.Second)
				for !sock.Connected() && time.Now().Before(end) {
					runtime.Gosched()
				}
				for s := 0; s < sc.bursts[e]; s++ {
					emit(s)
				}
				return
			}
			for s := 0; s < sc.bursts[e]; s++ {
				if s == sc.pre[e] {
					parked.Done()
					if sc.window && e == 0 {
						select {
						case <-winOpen:
						case <-time.After(5 * time.Second):
						}
					}
				}
				if sc.window && e == 0 && s == sc.pre[e]+2 {
					close(winDone)
				}
				emit(s)
			}
			if sc.pre[e] >= sc.bursts[e] {
				parked.Done()
			}
		}(e)
	}
	sock.Connect()
	select {
	case <-gotConnect:
	case <-time.After(10 * time.Second):
		row.EnvErr = "no CONNECT packet from the client"
		return
	}
	parked.Wait()
	if sc.window {
		// an event received BEFORE the CONNECT reply is buffered by the client and handed to its
		// handler from inside emitBuffered, after `state = Connected` and before the parked packets are flushed
		ev, _ := eioparser.NewPacket(eioparser.PacketTypeMessage, false, []byte(`2["ordx"]`))
		rawSock.Send(ev)
		time.Sleep(150 * time.Millisecond)
	}
	reply, _ := eioparser.NewPacket(eioparser.PacketTypeMessage, false, []byte(`0{"sid":"ordRawPeer0000000002"}`))
	rawSock.Send(reply)
	wg.Wait()
	row.TrName = rawSock.TransportName()
	row.Complete = ordWaitFor(func() bool { return int(atomic.LoadInt32(&rec.nfin)) >= total }, 20*time.Second)
	time.Sleep(30 * time.Millisecond)
	rec.mu.Lock()
	rec.recording = false
	row.Wire = rec.wire
	row.Batches = rec.batches
	row.Finished = rec.fin
	row.ParseErr = rec.parseErr
	rec.mu.Unlock()
	// the CONNECT packet itself was recorded as the first frame (recording starts inside its
	// callback, after the wire entry was skipped): nothing to strip
	if row.Finished == nil {
		row.Finished = []ordFin{}
	}
	if row.Wire == nil {
		row.Wire = []ordWire{}
	}
	return
}

// ------------------------------------------------------------------ receiver with two concurrent deliverers
//
// Two transports of one Engine.IO socket can call OnPacket at the same time (upgrade window).  The
// real client Manager (not connected to anything) is fed through the verif export VerifDeliver by
// two goroutines: deliverer 0 hands over payloads of 1..4 WHOLE packets with 1..4 attachments (a
// polling response), deliverer 1 single-frame plain events one per call (websocket messages) or, in
// every second scenario, payloads of whole binary packets too.  Handlers check their arguments.
func ordRecvRun(sc *ordScenario) (row ordRow) {
	t0 := time.Now()
	row = ordRow{Mode: "recv", Dir: "recv", Transport: "two-deliverers", N: 2, Seed: sc.seed}
	defer func() { row.Ms = time.Since(t0).Milliseconds() }()
	r := vk.NewRand(sc.seed)
	bothBatched := r.Intn(2) == 0
	nA, nB := 100+r.Intn(100), 200+r.Intn(200)
	if bothBatched {
		nB = 100 + r.Intn(100)
	}
	row.Bursts = []int{nA, nB}
	atts := [][]int{make([]int, nA), make([]int, nB)}
	for s := range atts[0] {
		atts[0][s] = 1 + r.Intn(4)
	}
	if bothBatched {
		for s := range atts[1] {
			atts[1][s] = 1 + r.Intn(4)
		}
	}
	row.AttCounts = atts
	sc.n, sc.bursts, sc.atts = 2, row.Bursts, atts
	payloads := ordPayloads(sc)

	m := sio.NewManager("http://127.0.0.1:9", &sio.ManagerConfig{NoReconnection: true})
	sock := m.Socket("/", nil)
	var mu sync.Mutex
	var entries [][2]int
	var count, corrupt int32
	for k := 0; k <= 4; k++ {
		k := k
		check := func(e, s int, got ...sio.Binary) {
			ok := e >= 0 && e < 2 && s >= 0 && s < sc.bursts[e] && len(payloads[e][s]) == k
			if ok {
				for i := range got {
					if string(got[i]) != string(payloads[e][s][i]) {
						ok = false
					}
				}
			}
			if !ok {
				atomic.AddInt32(&corrupt, 1)
			}
			mu.Lock()
			entries = append(entries, [2]int{e, s})
			mu.Unlock()
			atomic.AddInt32(&count, 1)
		}
		var h any
		switch k {
		case 0:
			h = func(e, s int) { check(e, s) }
		case 1:
			h = func(e, s int, a sio.Binary) { check(e, s, a) }
		case 2:
			h = func(e, s int, a, b sio.Binary) { check(e, s, a, b) }
		case 3:
			h = func(e, s int, a, b, c sio.Binary) { check(e, s, a, b, c) }
		default:
			h = func(e, s int, a, b, c, d sio.Binary) { check(e, s, a, b, c, d) }
		}
		sock.OnEvent(fmt.Sprintf("e%d", k), h)
	}
	connected := make(chan struct{}, 1)
	sock.OnConnect(func() {
		select {
		case connected <- struct{}{}:
		default:
		}
	})
	var merr atomic.Value
	m.OnError(func(err error) { merr.Store(err.Error()) })
	msg := func(bin bool, data []byte) *eioparser.Packet {
		p, _ := eioparser.NewPacket(eioparser.PacketTypeMessage, bin, data)
		return p
	}
	sio.VerifDeliver(m, msg(false, []byte(`0{"sid":"ordRecv00000000000001"}`)))
	select {
	case <-connected:
	case <-time.After(5 * time.Second):
		row.EnvErr = "the detached client socket did not process the CONNECT packet"
		return
	}
	// the calls of each deliverer
	calls := make([][][]*eioparser.Packet, 2)
	enc := jsonparser.NewCreator(0, stdjson.New())()
	for e := 0; e < 2; e++ {
		var cur []*eioparser.Packet
		left := 0
		for s := 0; s < sc.bursts[e]; s++ {
			at := payloads[e][s]
			cp := make([]any, 0, 3+len(at))
			cp = append(cp, fmt.Sprintf("e%d", len(at)), e, s)
			for _, a := range at {
				cp = append(cp, sio.Binary(append([]byte(nil), a...)))
			}
			h := &parser.PacketHeader{Type: parser.PacketTypeEvent, Namespace: "/"}
			bufs, err := enc.Encode(h, &cp)
			if err != nil {
				row.EnvErr = "reference encode: " + err.Error()
				return
			}
			if left == 0 {
				if cur != nil {
					calls[e] = append(calls[e], cur)
				}
				cur = nil
				left = 1 + r.Intn(4)
			}
			cur = append(cur, msg(false, bufs[0]))
			for _, b := range bufs[1:] {
				cur = append(cur, msg(true, b))
			}
			left--
		}
		if cur != nil {
			calls[e] = append(calls[e], cur)
		}
	}
	var wg sync.WaitGroup
	start := make(chan struct{})
	for e := 0; e < 2; e++ {
		wg.Add(1)
		go func(e int) {
			defer wg.Done()
			<-start
			for _, c := range calls[e] {
				sio.VerifDeliver(m, c...)
			}
		}(e)
	}
	close(start)
	wg.Wait()
	total := nA + nB
	row.Complete = ordWaitFor(func() bool { return int(atomic.LoadInt32(&count)) >= total }, 5*time.Second)
	time.Sleep(20 * time.Millisecond)
	mu.Lock()
	row.Entries = append([][2]int(nil), entries...)
	mu.Unlock()
	row.Inv = int(atomic.LoadInt32(&corrupt)) // recv mode: number of handler entries with wrong arguments
	if v := merr.Load(); v != nil {
		row.ParseErr = v.(string)
	}
	m.Close()
	return
}

// ------------------------------------------------------------------ handler rig

func ordHandlerFor(k int, record func(e, s int)) any {
	switch k {
	case 0:
		return func(e, s int) { record(e, s) }
	case 1:
		return func(e, s int, a sio.Binary) { record(e, s) }
	case 2:
		return func(e, s int, a, b sio.Binary) { record(e, s) }
	case 3:
		return func(e, s int, a, b, c sio.Binary) { record(e, s) }
	}
	return func(e, s int, a, b, c, d sio.Binary) { record(e, s) }
}

func ordHandlerRun(sc *ordScenario) (row ordRow) {
	t0 := time.Now()
	row = ordRow{Mode: "handler", Dir: sc.dir, Transport: sc.transport, N: sc.n, Seed: sc.seed,
		Bursts: sc.bursts, AttCounts: sc.atts}
	defer func() { row.Ms = time.Since(t0).Milliseconds() }()
	payloads := ordPayloads(sc)
	total := ordTotal(sc)
	var mu sync.Mutex
	entries := make([][2]int, 0, total)
	var count int32
	record := func(e, s int) {
		mu.Lock()
		entries = append(entries, [2]int{e, s})
		mu.Unlock()
		atomic.AddInt32(&count, 1)
	}
	scfg := &sio.ServerConfig{}
	scfg.EIO.WebSocketAcceptOptions = ordWSAccept
	io := sio.NewServer(scfg)
	sockCh := make(chan sio.ServerSocket, 1)
	io.OnConnection(func(s sio.ServerSocket) {
		if sc.dir == "c2s" {
			for k := 0; k <= 4; k++ {
				s.OnEvent(fmt.Sprintf("e%d", k), ordHandlerFor(k, record))
			}
		}
		sockCh <- s
	})
	if err := io.Run(); err != nil {
		row.EnvErr = "sio server run: " + err.Error()
		return
	}
	ts := httptest.NewServer(io)
	defer ts.Close()
	defer io.Close()
	upgraded := make(chan string, 4)
	cfg := &sio.ManagerConfig{NoReconnection: true}
	cfg.EIO.Transports = ordTransports(sc.transport)
	cfg.EIO.WebSocketDialOptions = ordWSDial
	cfg.EIO.UpgradeDone = func(name string) { upgraded <- name }
	m := sio.NewManager(ts.URL, cfg)
	sock := m.Socket("/", nil)
	if sc.dir == "s2c" {
		for k := 0; k <= 4; k++ {
			sock.OnEvent(fmt.Sprintf("e%d", k), ordHandlerFor(k, record))
		}
	}
	connected := make(chan struct{}, 1)
	sock.OnConnect(func() {
		select {
		case connected <- struct{}{}:
		default:
		}
	})
	sock.Connect()
	defer m.Close()
	var ssock sio.ServerSocket
	select {
	case ssock = <-sockCh:
	case <-time.After(10 * time.Second):
		row.EnvErr = "no connection at the server"
		return
	}
	select {
	case <-connected:
	case <-time.After(10 * time.Second):
		row.EnvErr = "client did not connect"
		return
	}
	if sc.transport == "upgrade" {
		select {
		case <-upgraded:
		case <-time.After(10 * time.Second):
			row.EnvErr = "no upgrade"
			return
		}
		time.Sleep(300 * time.Millisecond)
	}
	ev := func(k int) string { return fmt.Sprintf("e%d", k) }
	if sc.dir == "c2s" {
		ordEmitAll(sc, sock, payloads, ev)
	} else {
		ordEmitAll(sc, ssock, payloads, ev)
	}
	row.Complete = ordWaitFor(func() bool { return int(atomic.LoadInt32(&count)) >= total }, 30*time.Second)
	time.Sleep(30 * time.Millisecond)
	mu.Lock()
	row.Entries = append([][2]int(nil), entries...)
	mu.Unlock()
	// harness-side classification (mirrors Sio/PipelineCheck.v: entry_class)
	seen := map[[2]int]int{}
	last := map[int]int{}
	ordered := true
	for _, en := range row.Entries {
		seen[en]++
		if l, ok := last[en[0]]; ok && en[1] < l {
			row.Inv++
			ordered = false
		}
		last[en[0]] = en[1]
	}
	perm := len(row.Entries) == total
	for e := 0; e < sc.n && perm; e++ {
		for s := 0; s < sc.bursts[e]; s++ {
			if seen[[2]int{e, s}] != 1 {
				perm = false
				break
			}
		}
	}
	switch {
	case perm && ordered:
		row.Class = "ok"
	case perm && !ordered:
		row.Class = "handler-entry-order:dispatch-goroutines"
	default:
		row.Class = "lost-or-duplicated"
	}
	return
}

// ------------------------------------------------------------------ scenarios

func ordMain(args []string) error {
	fs := flag.NewFlagSet("order", flag.ContinueOnError)
	seed := fs.Uint64("seed", 1, "seed")
	mode := fs.String("mode", "wire", "wire | handler")
	outp := fs.String("out", "-", "output file")
	n := fs.Int("n", 12, "number of scenarios")
	maxBurst := fs.Int("burst", 24, "maximal burst length per emitter")
	dirs := fs.String("dirs", "c2s,s2c", "directions")
	trs := fs.String("transports", "polling,websocket,upgrade", "transports")
	par := fs.Int("par", 4, "scenarios run in parallel")
	emitters := fs.String("emitters", "", "fixed number of emitters (default: cycle 1,2,4,8,16,3)")
	pace := fs.Int("pace", 0, "microseconds between two emits of one emitter")
	window := fs.Bool("window", false, "connrace: emitter 0 emits from inside the window between Connected and the flush")
	if err := fs.Parse(args); err != nil {
		return err
	}
	out, err := vk.NewOut(*outp)
	if err != nil {
		return err
	}
	defer out.Close()
	r := vk.NewRand(*seed)
	dl := strings.Split(*dirs, ",")
	tl := strings.Split(*trs, ",")
	ncycle := []int{1, 2, 4, 8, 16, 3}
	var scs []*ordScenario
	for i := 0; i < *n; i++ {
		sc := &ordScenario{dir: dl[i%len(dl)], transport: tl[(i/len(dl))%len(tl)], seed: r.U64(), pingMs: 1000, paceUs: *pace}
		sc.n = ncycle[(i/(len(dl)*len(tl)))%len(ncycle)]
		if *emitters != "" {
			fmt.Sscanf(*emitters, "%d", &sc.n)
		}
		for e := 0; e < sc.n; e++ {
			b := 1 + r.Intn(*maxBurst)
			if sc.n >= 8 && b > *maxBurst/2 {
				b = 1 + b/2
			}
			sc.bursts = append(sc.bursts, b)
			var ks []int
			for s := 0; s < b; s++ {
				k := 0
				if r.Intn(3) > 0 {
					k = r.Intn(5)
				}
				ks = append(ks, k)
			}
			sc.atts = append(sc.atts, ks)
		}
		if *mode == "connrace" {
			// c2s only; transports polling / websocket; half of the emitters park a share of their burst
			// and keep emitting across the CONNECT reply, the others wait for Connected()
			sc.dir = "c2s"
			sc.window = *window
			sc.transport = []string{"polling", "websocket"}[i%2]
			if (i/2)%2 == 1 && !*window && sc.n >= 2 {
				// flush-race shape: emitter 0 parks a long burst of events with 3..4 attachments,
				// every other goroutine waits for Connected() and then emits plain events: their
				// enqueues race with the flush of the parked packets
				sc.bursts[0] = 2 * *maxBurst
				sc.atts[0] = make([]int, sc.bursts[0])
				for s := range sc.atts[0] {
					sc.atts[0][s] = 3 + r.Intn(2)
				}
				sc.pre = append(sc.pre, sc.bursts[0])
				for e := 1; e < sc.n; e++ {
					if sc.bursts[e] > 25 {
						sc.bursts[e] = 25
						sc.atts[e] = sc.atts[e][:25]
					}
					for s := range sc.atts[e] {
						sc.atts[e][s] = 0
					}
					sc.pre = append(sc.pre, -1)
				}
			}
			for e := len(sc.pre); e < sc.n; e++ {
				switch {
				case e == 0 && *window:
					for sc.bursts[0] < 6 {
						sc.bursts[0] += 3
						sc.atts[0] = append(sc.atts[0], 0, 1, 2)
					}
					sc.pre = append(sc.pre, 1+r.Intn(sc.bursts[0]-4))
				case e == 0:
					sc.pre = append(sc.pre, sc.bursts[e]/2+r.Intn(sc.bursts[e]/2+1)) // parks, then goes on
				case e%3 == 1:
					sc.pre = append(sc.pre, -1) // starts at Connected()
				case e%3 == 2:
					sc.pre = append(sc.pre, sc.bursts[e]) // everything parked
				default:
					sc.pre = append(sc.pre, r.Intn(sc.bursts[e]+1))
				}
			}
		}
		scs = append(scs, sc)
	}
	rows := make([]ordRow, len(scs))
	sem := make(chan struct{}, *par)
	var wg sync.WaitGroup
	for i, sc := range scs {
		wg.Add(1)
		sem <- struct{}{}
		go func(i int, sc *ordScenario) {
			defer wg.Done()
			defer func() { <-sem }()
			for attempt := 0; attempt < 3; attempt++ {
				if *mode == "wire" {
					rows[i] = ordWireRun(sc)
				} else if *mode == "connrace" {
					rows[i] = ordConnRaceRun(sc)
				} else if *mode == "recv" {
					rows[i] = ordRecvRun(sc)
				} else {
					rows[i] = ordHandlerRun(sc)
				}
				if rows[i].EnvErr == "" {
					break
				}
			}
		}(i, sc)
	}
	wg.Wait()
	for i := range rows {
		out.Put(rows[i])
	}
	return nil
}
