package main

// e2e: live Socket.IO <-> Socket.IO rig for property C01 (public API only).
//
// One row per scenario: a real sio.Server behind httptest on 127.0.0.1:0, 1..3 real Go clients,
// a table of event names (each with its own typed handler signature, registered all at once on
// the receiving side so a mis-dispatch is visible), 1..8 goroutines emitting concurrently on every
// connection.  The row records what was emitted (name, emitter, seq, digest of the canonical
// argument tree, exact frame sizes) and what every handler was handed (handler's name, digest of
// the canonical tree rebuilt from the *received* reflect values).  The Coq side (Sio/EndToEndCheck.v)
// evaluates the property (oracle) and the model's prediction (agree) on that history.
//
// All identifiers of this file start with e2e (the package is shared by all engines).

import (
	"encoding/binary"
	"flag"
	"fmt"
	"hash/fnv"
	"math"
	"net/http/httptest"
	"reflect"
	"sort"
	"strconv"
	"strings"
	"sync"
	"sync/atomic"
	"time"

	sio "github.com/karagenc/socket.io-go"
	eio "github.com/karagenc/socket.io-go/engine.io"
	"github.com/karagenc/socket.io-go/parser"
	jsonparser "github.com/karagenc/socket.io-go/parser/json"
	"github.com/karagenc/socket.io-go/parser/json/serializer/stdjson"

	"verifharness/vk"
)

func init() { register("e2e", e2eMain) }

// ---------------------------------------------------------------- canonical argument trees

type e2eTree struct {
	K byte // 'z' null, 'b' bool, 'n' number, 's' string, 'x' binary, 'l' list, 'm' map
	N float64
	S string
	B []byte
	L []*e2eTree
	M map[string]*e2eTree
}

func (t *e2eTree) write(h *[]byte) {
	var u [8]byte
	put := func(n uint64) { binary.BigEndian.PutUint64(u[:], n); *h = append(*h, u[:]...) }
	*h = append(*h, t.K)
	switch t.K {
	case 'b', 'n':
		put(math.Float64bits(t.N))
	case 's':
		put(uint64(len(t.S)))
		*h = append(*h, t.S...)
	case 'x':
		put(uint64(len(t.B)))
		*h = append(*h, t.B...)
	case 'l':
		put(uint64(len(t.L)))
		for _, e := range t.L {
			e.write(h)
		}
	case 'm':
		keys := make([]string, 0, len(t.M))
		for k := range t.M {
			keys = append(keys, k)
		}
		sort.Strings(keys)
		put(uint64(len(keys)))
		for _, k := range keys {
			put(uint64(len(k)))
			*h = append(*h, k...)
			t.M[k].write(h)
		}
	}
}

// digest of an argument list (63 bits so that it is a comfortable N literal; never 0)
func e2eDigest(args []*e2eTree) uint64 {
	buf := make([]byte, 0, 256)
	var u [8]byte
	binary.BigEndian.PutUint64(u[:], uint64(len(args)))
	buf = append(buf, u[:]...)
	for _, a := range args {
		a.write(&buf)
	}
	f := fnv.New64a()
	f.Write(buf)
	return f.Sum64()>>1 | 1
}

func e2eNum(f float64) *e2eTree      { return &e2eTree{K: 'n', N: f} }
func e2eStr(s string) *e2eTree       { return &e2eTree{K: 's', S: s} }
func e2eBin(b []byte) *e2eTree       { return &e2eTree{K: 'x', B: append([]byte{}, b...)} }
func e2eNull() *e2eTree              { return &e2eTree{K: 'z'} }
func e2eList(l ...*e2eTree) *e2eTree { return &e2eTree{K: 'l', L: l} }
func e2eBool(b bool) *e2eTree {
	if b {
		return &e2eTree{K: 'b', N: 1}
	}
	return &e2eTree{K: 'b', N: 0}
}

// canonical tree of a value as the peer's handler received it (by reflection only)
func e2eFromReflect(rv reflect.Value) *e2eTree {
	if !rv.IsValid() {
		return e2eNull()
	}
	switch rv.Kind() {
	case reflect.Interface, reflect.Ptr:
		if rv.IsNil() {
			return e2eNull()
		}
		return e2eFromReflect(rv.Elem())
	case reflect.Bool:
		return e2eBool(rv.Bool())
	case reflect.Int, reflect.Int8, reflect.Int16, reflect.Int32, reflect.Int64:
		return e2eNum(float64(rv.Int()))
	case reflect.Uint, reflect.Uint8, reflect.Uint16, reflect.Uint32, reflect.Uint64:
		return e2eNum(float64(rv.Uint()))
	case reflect.Float32, reflect.Float64:
		return e2eNum(rv.Float())
	case reflect.String:
		return e2eStr(rv.String())
	case reflect.Slice:
		if rv.IsNil() {
			return e2eNull()
		}
		if rv.Type().Elem().Kind() == reflect.Uint8 {
			return e2eBin(rv.Bytes())
		}
		t := &e2eTree{K: 'l', L: []*e2eTree{}}
		for i := 0; i < rv.Len(); i++ {
			t.L = append(t.L, e2eFromReflect(rv.Index(i)))
		}
		return t
	case reflect.Map:
		if rv.IsNil() {
			return e2eNull()
		}
		t := &e2eTree{K: 'm', M: map[string]*e2eTree{}}
		it := rv.MapRange()
		for it.Next() {
			t.M[fmt.Sprint(it.Key().Interface())] = e2eFromReflect(it.Value())
		}
		return t
	case reflect.Struct:
		t := &e2eTree{K: 'm', M: map[string]*e2eTree{}}
		rt := rv.Type()
		for i := 0; i < rt.NumField(); i++ {
			name := rt.Field(i).Tag.Get("json")
			if name == "" {
				name = rt.Field(i).Name
			}
			t.M[name] = e2eFromReflect(rv.Field(i))
		}
		return t
	}
	return &e2eTree{K: '?', S: rv.Kind().String()}
}

// ---------------------------------------------------------------- argument kinds

type e2eMeta struct {
	C int `json:"c"`
	E int `json:"e"`
	S int `json:"s"`
}
type e2eInner struct {
	Blob sio.Binary `json:"blob"`
	N    int        `json:"n"`
	Tags []string   `json:"tags"`
}
type e2eS2 struct {
	Name  string     `json:"name"`
	Data  sio.Binary `json:"data"`
	Inner e2eInner   `json:"inner"`
	List  []int      `json:"list"`
	F     float64    `json:"f"`
	Ok    bool       `json:"ok"`
}
type e2ePart struct {
	Bin sio.Binary `json:"bin"`
	K   int        `json:"k"`
}
type e2eS3 struct {
	ID    string    `json:"id"`
	Parts []e2ePart `json:"parts"`
}

// generator context of one argument: pad = requested length of the scalable leaf (-1: free choice)
type e2eGen struct {
	r   *vk.Rand
	pad int
	c   int
	e   int
	s   int
}

var e2eAlphabet = []string{"a", "b", "z", "0", " ", "\"", "\\", "/", "\n", "\t", "é", "ü", "日", "本", "\U0001F600", " ", "<", "&", "'", "\u0000", "\u007f"}

func (g *e2eGen) str() string {
	if g.pad >= 0 {
		n := g.pad
		g.pad = -1
		b := make([]byte, n)
		for i := range b {
			b[i] = byte('a' + g.r.Intn(26))
		}
		return string(b)
	}
	var sb strings.Builder
	for i, n := 0, g.r.Intn(12); i < n; i++ {
		sb.WriteString(e2eAlphabet[g.r.Intn(len(e2eAlphabet))])
	}
	return sb.String()
}

func (g *e2eGen) bin() []byte {
	if g.pad >= 0 {
		n := g.pad
		g.pad = -1
		return g.r.Bytes(n)
	}
	switch g.r.Intn(6) {
	case 0:
		return []byte{}
	case 1:
		return g.r.Bytes(1)
	}
	return g.r.Bytes(g.r.Intn(40))
}

func (g *e2eGen) num() int {
	switch g.r.Intn(6) {
	case 0:
		return 0
	case 1:
		return -1
	case 2:
		return 1 << 40
	case 3:
		return -(1<<52 + 12345)
	}
	return g.r.Intn(100000) - 50000
}

func (g *e2eGen) flt() float64 {
	switch g.r.Intn(5) {
	case 0:
		return 0
	case 1:
		return -2.5
	case 2:
		return 1e21
	case 3:
		return 1.0 / 1024
	}
	return float64(g.r.Intn(1<<20)) / 64
}

// generic JSON tree without binary leaves (decoded into `any` / map[string]any by the peer)
func (g *e2eGen) generic(depth int) (any, *e2eTree) {
	k := g.r.Intn(7)
	if depth <= 0 && k >= 5 {
		k = g.r.Intn(5)
	}
	switch k {
	case 0:
		return nil, e2eNull()
	case 1:
		b := g.r.Bool()
		return b, e2eBool(b)
	case 2:
		n := g.num()
		return n, e2eNum(float64(n))
	case 3:
		f := g.flt()
		return f, e2eNum(f)
	case 4:
		s := g.str()
		return s, e2eStr(s)
	case 5:
		l := []any{}
		t := &e2eTree{K: 'l', L: []*e2eTree{}}
		for i, n := 0, g.r.Intn(4); i < n; i++ {
			v, vt := g.generic(depth - 1)
			l = append(l, v)
			t.L = append(t.L, vt)
		}
		return l, t
	}
	m := map[string]any{}
	t := &e2eTree{K: 'm', M: map[string]*e2eTree{}}
	for i, n := 0, g.r.Intn(4); i < n; i++ {
		key := g.str()
		v, vt := g.generic(depth - 1)
		m[key] = v
		t.M[key] = vt
	}
	return m, t
}

// same JSON shape as e2eS2 / e2eInner with other Go types (a handler of a DIFFERENT parameter type
// registered for the same name must be handed the same content)
type e2eInnerB struct {
	Blob jsonparser.Binary `json:"blob"`
	N    float64           `json:"n"`
	Tags []any             `json:"tags"`
}
type e2eS2B struct {
	Name  any               `json:"name"`
	Data  jsonparser.Binary `json:"data"`
	Inner *e2eInnerB        `json:"inner"`
	List  []float64         `json:"list"`
	F     float64           `json:"f"`
	Ok    bool              `json:"ok"`
}

var e2eAltTypes = map[string]reflect.Type{}

func init() {
	var anyPtr *any
	anyT := reflect.TypeOf(anyPtr).Elem()
	e2eAltTypes["meta"] = reflect.TypeOf(map[string]any{})
	e2eAltTypes["int"] = reflect.TypeOf(float64(0))
	e2eAltTypes["flt"] = anyT
	e2eAltTypes["bool"] = anyT
	e2eAltTypes["str"] = anyT
	e2eAltTypes["bin"] = reflect.TypeOf(jsonparser.Binary{})
	e2eAltTypes["strs"] = reflect.TypeOf([]any{})
	e2eAltTypes["s2"] = reflect.TypeOf(e2eS2B{})
	e2eAltTypes["ps3"] = reflect.TypeOf(e2eS3{})
	e2eAltTypes["map"] = anyT
	e2eAltTypes["any"] = anyT
}

// registrations of one name on the receiving socket: 0 = On with the primary parameter types,
// 1 = On with the alternative types, 2 = Once with the primary types.  Recorded name index =
// index + 100 * registration.
func e2eRegs(seed uint64, ni int, n *e2eName) []int {
	if n.extra {
		return []int{0}
	}
	switch (seed/7 + uint64(ni)) % 4 {
	case 0:
		return []int{0}
	case 1:
		return []int{0, 1}
	case 2:
		return []int{0, 1, 2}
	}
	return []int{0, 2}
}

type e2eKind struct {
	name  string
	typ   reflect.Type
	isStr bool // reflect.Kind of the parameter is String (the client's offset-stripping test)
	nbin  int  // -1: variable
	gen   func(g *e2eGen) (any, *e2eTree)
}

var e2eKinds = map[string]*e2eKind{}

func e2eAddKind(k *e2eKind) { e2eKinds[k.name] = k }

func init() {
	e2eAddKind(&e2eKind{name: "meta", typ: reflect.TypeOf(e2eMeta{}), gen: func(g *e2eGen) (any, *e2eTree) {
		return e2eMeta{C: g.c, E: g.e, S: g.s}, &e2eTree{K: 'm', M: map[string]*e2eTree{
			"c": e2eNum(float64(g.c)), "e": e2eNum(float64(g.e)), "s": e2eNum(float64(g.s))}}
	}})
	e2eAddKind(&e2eKind{name: "int", typ: reflect.TypeOf(int(0)), gen: func(g *e2eGen) (any, *e2eTree) {
		n := g.num()
		return n, e2eNum(float64(n))
	}})
	e2eAddKind(&e2eKind{name: "flt", typ: reflect.TypeOf(float64(0)), gen: func(g *e2eGen) (any, *e2eTree) {
		f := g.flt()
		return f, e2eNum(f)
	}})
	e2eAddKind(&e2eKind{name: "bool", typ: reflect.TypeOf(false), gen: func(g *e2eGen) (any, *e2eTree) {
		b := g.r.Bool()
		return b, e2eBool(b)
	}})
	e2eAddKind(&e2eKind{name: "str", typ: reflect.TypeOf(""), isStr: true, gen: func(g *e2eGen) (any, *e2eTree) {
		s := g.str()
		return s, e2eStr(s)
	}})
	e2eAddKind(&e2eKind{name: "bin", typ: reflect.TypeOf(sio.Binary{}), nbin: 1, gen: func(g *e2eGen) (any, *e2eTree) {
		b := g.bin()
		return sio.Binary(append([]byte{}, b...)), e2eBin(b)
	}})
	e2eAddKind(&e2eKind{name: "strs", typ: reflect.TypeOf([]string{}), gen: func(g *e2eGen) (any, *e2eTree) {
		l := []string{}
		t := &e2eTree{K: 'l', L: []*e2eTree{}}
		for i, n := 0, g.r.Intn(5); i < n; i++ {
			s := g.str()
			l = append(l, s)
			t.L = append(t.L, e2eStr(s))
		}
		return l, t
	}})
	e2eAddKind(&e2eKind{name: "s2", typ: reflect.TypeOf(e2eS2{}), nbin: 2, gen: func(g *e2eGen) (any, *e2eTree) {
		data := g.bin() // takes the pad when one is requested
		v := e2eS2{Name: g.str(), Data: sio.Binary(append([]byte{}, data...)), List: []int{}, F: g.flt(), Ok: g.r.Bool()}
		blob := g.bin()
		v.Inner = e2eInner{Blob: sio.Binary(append([]byte{}, blob...)), N: g.num(), Tags: []string{}}
		lt := &e2eTree{K: 'l', L: []*e2eTree{}}
		for i, n := 0, g.r.Intn(4); i < n; i++ {
			x := g.num()
			v.List = append(v.List, x)
			lt.L = append(lt.L, e2eNum(float64(x)))
		}
		tt := &e2eTree{K: 'l', L: []*e2eTree{}}
		for i, n := 0, g.r.Intn(3); i < n; i++ {
			s := g.str()
			v.Inner.Tags = append(v.Inner.Tags, s)
			tt.L = append(tt.L, e2eStr(s))
		}
		t := &e2eTree{K: 'm', M: map[string]*e2eTree{
			"name": e2eStr(v.Name), "data": e2eBin(data), "list": lt, "f": e2eNum(v.F), "ok": e2eBool(v.Ok),
			"inner": {K: 'm', M: map[string]*e2eTree{"blob": e2eBin(blob), "n": e2eNum(float64(v.Inner.N)), "tags": tt}}}}
		return v, t
	}})
	e2eAddKind(&e2eKind{name: "ps3", typ: reflect.TypeOf(&e2eS3{}), nbin: -1, gen: func(g *e2eGen) (any, *e2eTree) {
		v := &e2eS3{ID: g.str(), Parts: []e2ePart{}}
		pt := &e2eTree{K: 'l', L: []*e2eTree{}}
		for i, n := 0, g.r.Intn(4); i < n; i++ {
			b := g.bin()
			k := g.num()
			v.Parts = append(v.Parts, e2ePart{Bin: sio.Binary(append([]byte{}, b...)), K: k})
			pt.L = append(pt.L, &e2eTree{K: 'm', M: map[string]*e2eTree{"bin": e2eBin(b), "k": e2eNum(float64(k))}})
		}
		return v, &e2eTree{K: 'm', M: map[string]*e2eTree{"id": e2eStr(v.ID), "parts": pt}}
	}})
	e2eAddKind(&e2eKind{name: "map", typ: reflect.TypeOf(map[string]any{}), gen: func(g *e2eGen) (any, *e2eTree) {
		m := map[string]any{}
		t := &e2eTree{K: 'm', M: map[string]*e2eTree{}}
		for i, n := 0, g.r.Intn(5); i < n; i++ {
			key := g.str()
			v, vt := g.generic(2)
			m[key] = v
			t.M[key] = vt
		}
		return m, t
	}})
	var anyPtr *any
	e2eAddKind(&e2eKind{name: "any", typ: reflect.TypeOf(anyPtr).Elem(), gen: func(g *e2eGen) (any, *e2eTree) {
		return g.generic(3)
	}})
}

// ---------------------------------------------------------------- event names and signatures

type e2eName struct {
	Name  string   `json:"name"`
	Kinds []string `json:"kinds"`
	// which argument takes the size pad (-1 none) and whether the padded leaf is binary
	padArg int
	padBin bool
	// the handler declares one more (string) parameter than the emitter sends: with connection
	// state recovery on, server -> client, it receives the offset the server appends
	extra bool
}

// parameter kinds of the handler registered for the name
func (n *e2eName) handlerKinds() []string {
	if n.extra {
		return append(append([]string{}, n.Kinds...), "str")
	}
	return n.Kinds
}

func e2eNameTable() []e2eName {
	return []e2eName{
		/* 0*/ {Name: "plain", Kinds: []string{"meta", "int", "bool", "flt"}, padArg: -1},
		/* 1*/ {Name: "ünï-cødé ✓ 日本\U0001F600", Kinds: []string{"meta", "strs"}, padArg: -1},
		/* 2*/ {Name: "q\"uo\"te", Kinds: []string{"meta", "map"}, padArg: -1},
		/* 3*/ {Name: "back\\slash/\n", Kinds: []string{"meta", "s2"}, padArg: 1, padBin: true},
		/* 4*/ {Name: "noargs", Kinds: []string{}, padArg: -1},
		/* 5*/ {Name: "str", Kinds: []string{"str"}, padArg: 0},
		/* 6*/ {Name: "text-last", Kinds: []string{"meta", "str"}, padArg: 1},
		/* 7*/ {Name: "text-first", Kinds: []string{"str", "meta"}, padArg: 0},
		/* 8*/ {Name: "bin", Kinds: []string{"meta", "bin", "bin"}, padArg: 1, padBin: true},
		/* 9*/ {Name: "nested", Kinds: []string{"meta", "s2", "ps3"}, padArg: 1, padBin: true},
		/*10*/ {Name: "any", Kinds: []string{"meta", "any", "any"}, padArg: -1},
		/*11*/ {Name: "plain2", Kinds: []string{"meta", "int", "bool", "flt"}, padArg: -1}, // same signature as "plain"
		/*12*/ {Name: "4bins", Kinds: []string{"bin", "bin", "meta", "bin", "bin"}, padArg: 3, padBin: true},
		/*13*/ {Name: "42[\"plain\",{}]", Kinds: []string{"meta", "str", "int"}, padArg: 1},
		/*14*/ {Name: "trail\\", Kinds: []string{"meta", "int"}, padArg: -1}, // C09: name ending in a backslash
		/*15*/ {Name: "", Kinds: []string{"meta", "int"}, padArg: -1}, // empty event name
		/*16*/ {Name: "offset-probe", Kinds: []string{"meta", "int"}, padArg: -1, extra: true},
	}
}

// the name that gets two handler registrations on the receiving side

func (n *e2eName) trailingStr() bool {
	hk := n.handlerKinds()
	return len(hk) > 0 && e2eKinds[hk[len(hk)-1]].isStr
}

// builds the arguments of one event; deterministic in (seed, c, e, s) so that it can be built
// several times (Encode mutates its input, so the measuring copy is not the emitted copy)
func e2eBuild(n *e2eName, seed uint64, c, e, s, pad int) ([]any, []*e2eTree) {
	r := vk.NewRand(seed ^ uint64(c+1)*0x9e3779b97f4a7c15 ^ uint64(e+1)*0xc2b2ae3d27d4eb4f ^ uint64(s+1)*0x165667b19e3779f9)
	vals := make([]any, len(n.Kinds))
	trees := make([]*e2eTree, len(n.Kinds))
	for i, kn := range n.Kinds {
		g := &e2eGen{r: r.Fork(), pad: -1, c: c, e: e, s: s}
		if i == n.padArg && pad >= 0 {
			g.pad = pad
		}
		vals[i], trees[i] = e2eKinds[kn].gen(g)
	}
	return vals, trees
}

// exact sizes of the frames the sender's parser produces for this event (without recovery offset)
func e2eMeasure(name string, vals []any) (text int, maxAtt int, natt int, err error) {
	p := jsonparser.NewCreator(0, stdjson.New())()
	h := &parser.PacketHeader{Type: parser.PacketTypeEvent, Namespace: "/"}
	v := append([]any{name}, vals...)
	bufs, err := p.Encode(h, &v)
	if err != nil {
		return 0, 0, 0, err
	}
	text = 1 + len(bufs[0]) // Engine.IO message type byte + Socket.IO packet
	for _, b := range bufs[1:] {
		if len(b) > maxAtt {
			maxAtt = len(b)
		}
	}
	return text, maxAtt, len(bufs) - 1, nil
}

// ---------------------------------------------------------------- scenarios

type e2eScn struct {
	ID        int    `json:"id"`
	Transport string `json:"transport"` // polling | websocket | upgrade
	Recovery  bool   `json:"recovery"`
	Dir       string `json:"dir"` // s2c | c2s
	Clients   int    `json:"clients"`
	Emitters  int    `json:"emitters"`
	Per       int    `json:"per"`   // events per emitter
	Size      string `json:"size"`  // size class of the padded events
	Names     []int  `json:"names"` // indexes into the name table
	Mid       bool   `json:"mid"`   // upgrade: emit while the upgrade is in progress
	Held      string `json:"held"`  // "" | "poll-resp" | "post": one long-polling transfer kept back across the upgrade (e2e_held.go)
	Seed      uint64 `json:"seed"`
}

type e2eEv struct {
	C    int    `json:"c"`
	N    int    `json:"n"` // name index
	E    int    `json:"e"`
	S    int    `json:"s"`
	D    string `json:"d"`    // digest (decimal)
	Text int    `json:"text"` // bytes of the text frame (Engine.IO packet), without recovery offset
	Att  int    `json:"att"`  // largest attachment, bytes
	NAtt int    `json:"natt"`
	OK   bool   `json:"ok"`  // harness-side prediction: delivered exactly once
	Key  string `json:"key"` // finding class when !OK
}

type e2eDel struct {
	C int    `json:"c"`
	N int    `json:"n"` // name index the HANDLER was registered for
	D string `json:"d"`
}

type e2eRow struct {
	Scn       e2eScn           `json:"scn"`
	Names     []e2eName        `json:"names"`
	Trailing  []bool           `json:"trailing"` // per name index: last handler parameter is a string
	Arity     []int            `json:"arity"`
	Regs      map[string][]int `json:"regs"`       // per name index: handler registrations (see e2eRegs)
	ProbeSet  int64            `json:"probe_set"`  // offset-probe handler saw a non-empty extra parameter
	ProbeZero int64            `json:"probe_zero"` // ... saw the zero value
	// websocket traffic WITH attachments while a poll response of the old transport is still in flight
	// (held-transfer scenarios): outside feeders_safe of Sio/EndToEnd.v
	WsAttInFlight bool     `json:"ws_att_in_flight"`
	Emitted       []e2eEv  `json:"emitted"`
	Delivered     []e2eDel `json:"delivered"`
	Errors        []string `json:"errors"`
	Disc          int      `json:"disc"`  // disconnect/close callbacks seen before teardown
	Setup         string   `json:"setup"` // "" = rig came up; otherwise an environmental failure (retried by the driver)
	Complete      bool     `json:"complete"`
	WallMs        int64    `json:"wall_ms"`
	EmitPanic     []string `json:"emit_panic"`
}

// effective per-message limit of the receiving transport as the code stands (mirrors
// Sio/EndToEnd.v enforced_limit); 0 = none below the announced MaxBufferSize
type e2eLimits struct {
	WsClientRead int  // bytes; 0 when the websocket client sets the read limit from the handshake
	Strips       bool // the client drops a trailing string value when a pid is known (code before fix 6310e57)
}

func e2ePredict(scn *e2eScn, n *e2eName, ev *e2eEv, lim e2eLimits) (bool, string) {
	if lim.Strips && scn.Recovery && scn.Dir == "s2c" && n.trailingStr() {
		return false, "recovery-on:trailing-string-arg"
	}
	if lim.WsClientRead > 0 && scn.Dir == "s2c" && scn.Transport != "polling" {
		slack := 0
		if scn.Recovery {
			slack = 24 // the appended offset
		}
		if ev.Text+slack > lim.WsClientRead || ev.Att > lim.WsClientRead {
			return false, "ws-client-32k-read-limit"
		}
	}
	return true, ""
}

type e2eRecorder struct {
	mu        sync.Mutex
	delivered []e2eDel
	errors    map[string]int
	count     atomic.Int64
	probeSet  atomic.Int64 // offset-probe handler invocations whose extra parameter was non-empty
	probeZero atomic.Int64 // ... was the zero value
	disc      atomic.Int64
	lastMove  atomic.Int64
}

func (rec *e2eRecorder) err(side string, err any) {
	s := fmt.Sprint(err)
	if len(s) > 120 {
		s = s[:120]
	}
	rec.mu.Lock()
	rec.errors[side+": "+s]++
	rec.mu.Unlock()
}

// handler of name index ni on connection c: records the digest of what it was handed
func (rec *e2eRecorder) handler(c, ni int, n *e2eName) any { return rec.handlerR(c, ni, n, false) }

func e2eHandlerTypes(n *e2eName, alt bool) []reflect.Type {
	hk := n.handlerKinds()
	in := make([]reflect.Type, len(hk))
	for i, k := range hk {
		in[i] = e2eKinds[k].typ
		if alt {
			in[i] = e2eAltTypes[k]
		}
	}
	return in
}

// registers the handlers of name index ni as e2eRegs says; on/once are the socket's methods
func (rec *e2eRecorder) register(seed uint64, c, ni int, n *e2eName, on, once func(string, any), wrap func(reg int, alt bool) any) []int {
	regs := e2eRegs(seed, ni, n)
	for _, r := range regs {
		h := wrap(ni+100*r, r == 1)
		if r == 2 {
			once(n.Name, h)
		} else {
			on(n.Name, h)
		}
	}
	return regs
}

func (rec *e2eRecorder) handlerR(c, ni int, n *e2eName, alt bool) any {
	in := e2eHandlerTypes(n, alt)
	ft := reflect.FuncOf(in, nil, false)
	return reflect.MakeFunc(ft, func(args []reflect.Value) []reflect.Value {
		if n.extra {
			if args[len(args)-1].String() != "" {
				rec.probeSet.Add(1)
			} else {
				rec.probeZero.Add(1)
			}
			args = args[:len(args)-1]
		}
		trees := make([]*e2eTree, len(args))
		for i, a := range args {
			trees[i] = e2eFromReflect(a)
		}
		d := e2eDel{C: c, N: ni, D: strconv.FormatUint(e2eDigest(trees), 10)}
		rec.mu.Lock()
		rec.delivered = append(rec.delivered, d)
		rec.mu.Unlock()
		rec.count.Add(1)
		rec.lastMove.Store(time.Now().UnixNano())
		return nil
	}).Interface()
}

func e2eSizeTargets(class string, r *vk.Rand) []int {
	switch class {
	case "tiny":
		return []int{-1}
	case "1k":
		return []int{1024, 1000 + r.Intn(200)}
	case "32k":
		return []int{32767, 32768, 32769}
	case "64k":
		return []int{65535, 65536, 65537}
	case "big":
		return []int{100000 + r.Intn(50000), 200000 + r.Intn(100000)}
	case "huge":
		return []int{400000 + r.Intn(100000), 700000}
	}
	return []int{-1}
}

func e2eRunScenario(scn e2eScn, lim e2eLimits) (row e2eRow) {
	t0 := time.Now()
	table := e2eNameTable()
	row.Scn = scn
	row.Names = table
	for i := range table {
		row.Trailing = append(row.Trailing, table[i].trailingStr())
		row.Arity = append(row.Arity, len(table[i].handlerKinds()))
	}
	row.Regs = map[string][]int{}
	row.Emitted, row.Delivered, row.Errors, row.EmitPanic = []e2eEv{}, []e2eDel{}, []string{}, []string{}
	rec := &e2eRecorder{errors: map[string]int{}}
	rec.lastMove.Store(time.Now().UnixNano())
	tearing := atomic.Bool{}

	srv := sio.NewServer(&sio.ServerConfig{
		ServerConnectionStateRecovery: sio.ServerConnectionStateRecovery{Enabled: scn.Recovery},
	})
	if err := srv.Run(); err != nil {
		row.Setup = "server run: " + err.Error()
		return
	}
	ts := httptest.NewServer(srv)
	defer func() {
		tearing.Store(true)
		done := make(chan struct{})
		go func() {
			srv.Close()
			ts.CloseClientConnections()
			ts.Close()
			close(done)
		}()
		select {
		case <-done:
		case <-time.After(5 * time.Second):
		}
		row.WallMs = time.Since(t0).Milliseconds()
	}()

	// receiving / emitting ends
	type conn struct {
		cs  sio.ClientSocket
		mgr *sio.Manager
		ss  sio.ServerSocket
	}
	conns := make([]*conn, scn.Clients)
	var cmu sync.Mutex
	byID := map[sio.SocketID]sio.ServerSocket{}
	srvConnected := make(chan struct{}, 16)
	// per-server-socket client index is resolved after connect through the socket id; c2s handlers
	// are registered inside OnConnection (before any event can be sent: emitters start later)
	idxOf := func(id sio.SocketID) int {
		for i := 0; i < 400; i++ {
			cmu.Lock()
			for ci, cn := range conns {
				if cn != nil && cn.cs != nil && cn.cs.ID() == id {
					cmu.Unlock()
					return ci
				}
			}
			cmu.Unlock()
			time.Sleep(5 * time.Millisecond)
		}
		return -1
	}
	srv.OnConnection(func(s sio.ServerSocket) {
		s.OnError(func(err error) { rec.err("server", err) })
		s.OnDisconnect(func(reason sio.Reason) {
			if !tearing.Load() {
				rec.disc.Add(1)
				rec.err("server-disconnect", reason)
			}
		})
		if scn.Dir == "c2s" {
			// the client index is looked up lazily at delivery time
			var once sync.Once
			ci := -1
			for _, ni := range scn.Names {
				ni := ni
				n := &table[ni]
				mk := func(reg int, alt bool) any {
					in := e2eHandlerTypes(n, alt)
					return reflect.MakeFunc(reflect.FuncOf(in, nil, false), func(args []reflect.Value) []reflect.Value {
						once.Do(func() { ci = idxOf(s.ID()) })
						f := reflect.ValueOf(rec.handlerR(ci, reg, n, alt))
						return f.Call(args)
					}).Interface()
				}
				regs := rec.register(scn.Seed, -1, ni, n, s.OnEvent, s.OnceEvent, mk)
				cmu.Lock()
				row.Regs[strconv.Itoa(ni)] = regs
				cmu.Unlock()
			}
			// decoy: a name nobody emits
			s.OnEvent("never-emitted", func(m e2eMeta, x int) {
				rec.mu.Lock()
				rec.delivered = append(rec.delivered, e2eDel{C: -1, N: -1, D: "1"})
				rec.mu.Unlock()
			})
		}
		cmu.Lock()
		byID[s.ID()] = s
		cmu.Unlock()
		srvConnected <- struct{}{}
	})

	transports := []string{"polling"}
	switch scn.Transport {
	case "websocket":
		transports = []string{"websocket"}
	case "upgrade":
		transports = []string{"polling", "websocket"}
	}
	upgraded := make(chan struct{}, 16)
	cliConnected := make(chan struct{}, 16)
	for ci := 0; ci < scn.Clients; ci++ {
		ci := ci
		mgr := sio.NewManager(ts.URL, &sio.ManagerConfig{
			NoReconnection: true,
			EIO: eio.ClientConfig{
				Transports:  transports,
				UpgradeDone: func(string) { upgraded <- struct{}{} },
			},
		})
		mgr.OnError(func(err error) { rec.err("client", err) })
		mgr.OnClose(func(reason sio.Reason, err error) {
			if !tearing.Load() {
				rec.disc.Add(1)
				rec.err("client-close", fmt.Sprint(reason, " ", err))
			}
		})
		cs := mgr.Socket("/", nil)
		cs.OnConnectError(func(err any) { rec.err("client-connect-error", err) })
		if scn.Dir == "s2c" {
			for _, ni := range scn.Names {
				ni, n := ni, &table[ni]
				regs := rec.register(scn.Seed, ci, ni, n, cs.OnEvent, cs.OnceEvent, func(reg int, alt bool) any {
					return rec.handlerR(ci, reg, n, alt)
				})
				cmu.Lock()
				row.Regs[strconv.Itoa(ni)] = regs
				cmu.Unlock()
			}
			cs.OnEvent("never-emitted", func(m e2eMeta, x int) {
				rec.mu.Lock()
				rec.delivered = append(rec.delivered, e2eDel{C: -1, N: -1, D: "1"})
				rec.mu.Unlock()
			})
		}
		cs.OnConnect(func() { cliConnected <- struct{}{} })
		cmu.Lock()
		conns[ci] = &conn{cs: cs, mgr: mgr}
		cmu.Unlock()
		cs.Connect()
	}
	defer func() {
		for _, cn := range conns {
			if cn != nil && cn.cs != nil {
				cs := cn.cs
				go func() { defer func() { recover() }(); cs.Disconnect() }()
			}
		}
		time.Sleep(20 * time.Millisecond)
	}()

	wait := func(ch chan struct{}, n int, what string) bool {
		deadline := time.After(20 * time.Second)
		for i := 0; i < n; i++ {
			select {
			case <-ch:
			case <-deadline:
				row.Setup = "timeout waiting for " + what
				return false
			}
		}
		return true
	}
	if !wait(cliConnected, scn.Clients, "client connect") || !wait(srvConnected, scn.Clients, "server connection") {
		return
	}
	if scn.Transport == "upgrade" && !scn.Mid {
		if !wait(upgraded, scn.Clients, "upgrade") {
			return
		}
	}
	for ci, cn := range conns {
		cmu.Lock()
		cn.ss = byID[cn.cs.ID()]
		cmu.Unlock()
		if cn.ss == nil {
			row.Setup = fmt.Sprintf("no server socket for client %d", ci)
			return
		}
	}

	// emission plan (deterministic), measured on private copies
	r := vk.NewRand(scn.Seed)
	targets := e2eSizeTargets(scn.Size, r)
	type planned struct {
		ev  e2eEv
		pad int
	}
	onceSeen := map[[2]int]bool{}
	plans := make([][][]planned, scn.Clients)
	expected := 0
	tgtUse := 0
	for c := 0; c < scn.Clients; c++ {
		plans[c] = make([][]planned, scn.Emitters)
		for e := 0; e < scn.Emitters; e++ {
			for s := 0; s < scn.Per; s++ {
				ni := scn.Names[r.Intn(len(scn.Names))]
				n := &table[ni]
				pad := -1
				if n.padArg >= 0 && scn.Size != "tiny" && r.Intn(3) > 0 {
					target := targets[tgtUse%len(targets)]
					tgtUse++
					if n.padBin {
						pad = target // the attachment itself has the target length
					} else {
						v0, _ := e2eBuild(n, scn.Seed, c, e, s, 0)
						base, _, _, err := e2eMeasure(n.Name, v0)
						if err == nil && target-base >= 0 {
							pad = target - base // text frame of exactly `target` bytes
						} else {
							pad = target
						}
					}
				}
				vm, trees := e2eBuild(n, scn.Seed, c, e, s, pad)
				text, att, natt, err := e2eMeasure(n.Name, vm)
				if err != nil {
					rec.err("measure", err)
				}
				ev := e2eEv{C: c, N: ni, E: e, S: s, D: strconv.FormatUint(e2eDigest(trees), 10), Text: text, Att: att, NAtt: natt}
				ev.OK, ev.Key = e2ePredict(&scn, n, &ev, lim)
				if ev.OK {
					for _, r := range e2eRegs(scn.Seed, ni, n) {
						if r != 2 {
							expected++
						} else if !onceSeen[[2]int{c, ni}] {
							onceSeen[[2]int{c, ni}] = true
							expected++
						}
					}
				}
				plans[c][e] = append(plans[c][e], planned{ev: ev, pad: pad})
				row.Emitted = append(row.Emitted, ev)
			}
		}
	}

	// concurrent emitters
	var wg sync.WaitGroup
	var pmu sync.Mutex
	start := make(chan struct{})
	var ready sync.WaitGroup
	ready.Add(scn.Clients * scn.Emitters)
	for c := 0; c < scn.Clients; c++ {
		for e := 0; e < scn.Emitters; e++ {
			wg.Add(1)
			go func(c, e int) {
				defer wg.Done()
				built := make([][]any, len(plans[c][e]))
				for i, p := range plans[c][e] {
					built[i], _ = e2eBuild(&table[p.ev.N], scn.Seed, c, e, p.ev.S, p.pad)
				}
				ready.Done()
				<-start
				for i, p := range plans[c][e] {
					n := &table[p.ev.N]
					vals := built[i]
					func() {
						defer func() {
							if x := recover(); x != nil {
								pmu.Lock()
								row.EmitPanic = append(row.EmitPanic, fmt.Sprint(x))
								pmu.Unlock()
							}
						}()
						if scn.Dir == "s2c" {
							conns[c].ss.Emit(n.Name, vals...)
						} else {
							conns[c].cs.Emit(n.Name, vals...)
						}
					}()
				}
			}(c, e)
		}
	}
	ready.Wait() // all values built: the emit loops below run back to back
	close(start)
	wg.Wait()
	rec.lastMove.Store(time.Now().UnixNano())

	// event-driven completion: all predicted deliveries arrived, or no progress for a long time
	for {
		if int(rec.count.Load()) >= expected {
			row.Complete = true
			break
		}
		if time.Since(time.Unix(0, rec.lastMove.Load())) > 25*time.Second {
			break
		}
		if rec.disc.Load() > 0 && time.Since(time.Unix(0, rec.lastMove.Load())) > 3*time.Second {
			break // the connection is gone; nothing more will arrive
		}
		time.Sleep(5 * time.Millisecond)
	}
	// settle: duplicates and predicted-undeliverable events would show up now
	settle := 400 * time.Millisecond
	for {
		time.Sleep(settle)
		if time.Since(time.Unix(0, rec.lastMove.Load())) >= settle {
			break
		}
	}
	rec.mu.Lock()
	row.Delivered = append(row.Delivered, rec.delivered...)
	for k, v := range rec.errors {
		row.Errors = append(row.Errors, fmt.Sprintf("%dx %s", v, k))
	}
	rec.mu.Unlock()
	sort.Strings(row.Errors)
	row.Disc = int(rec.disc.Load())
	row.ProbeSet, row.ProbeZero = rec.probeSet.Load(), rec.probeZero.Load()
	return
}

// ---------------------------------------------------------------- scenario matrix

func e2eMatrix(seed uint64, tier string) []e2eScn {
	r := vk.NewRand(seed)
	var scns []e2eScn
	id := 0
	okNames := []int{0, 1, 2, 3, 4, 5, 6, 7, 8, 9, 10, 11, 12, 13, 16}
	pick := func(k int, must ...int) []int {
		set := map[int]bool{}
		for _, m := range must {
			set[m] = true
		}
		for len(set) < k {
			set[okNames[r.Intn(len(okNames))]] = true
		}
		out := []int{}
		for i := range set {
			out = append(out, i)
		}
		sort.Ints(out)
		return out
	}
	sizes := []string{"tiny", "1k", "32k", "64k", "big"}
	rounds := 1
	per := 10
	if tier == "thorough" {
		rounds = 4
		per = 25
		sizes = append(sizes, "huge")
	}
	for round := 0; round < rounds; round++ {
		for _, tr := range []string{"polling", "websocket", "upgrade"} {
			for _, rc := range []bool{false, true} {
				for _, dir := range []string{"s2c", "c2s"} {
					for k := 0; k < 2; k++ {
						size := sizes[(id+round)%len(sizes)]
						s := e2eScn{ID: id, Transport: tr, Recovery: rc, Dir: dir,
							Clients: 1 + r.Intn(3), Emitters: 1 + r.Intn(8), Per: per, Size: size, Seed: r.U64()}
						if k == 0 {
							// always: two names with the same signature, a trailing-string one, binary ones
							s.Names = pick(8, 0, 11, 6, 8, 16)
						} else {
							s.Names = pick(5+r.Intn(6), 5)
						}
						if size == "big" || size == "huge" {
							s.Per = 3
							if s.Emitters > 4 {
								s.Emitters = 4
							}
						}
						if tr == "upgrade" && k == 1 {
							s.Mid = true
						}
						scns = append(scns, s)
						id++
					}
				}
			}
		}
	}
	// contention: 8 emitters in tight loops, mostly multi-attachment events, so that a send path
	// that does not enqueue a packet's frames atomically mixes them up
	for _, tr := range []string{"websocket", "polling"} {
		for _, dir := range []string{"s2c", "c2s"} {
			scns = append(scns, e2eScn{ID: id, Transport: tr, Recovery: dir == "s2c" && tr == "polling", Dir: dir,
				Clients: 1, Emitters: 8, Per: 10 * per, Size: "tiny", Names: []int{8, 9, 12}, Seed: r.U64()})
			id++
		}
	}
	// held transfers: two transports feed one parser while the upgrade happens (e2e_held.go)
	for round := 0; round < rounds; round++ {
		for _, h := range []struct {
			held, dir, phase2 string
			emitters          int
		}{
			{"poll-resp", "s2c", "plain", 4}, {"poll-resp", "s2c", "plain", 2}, {"poll-resp", "s2c", "binary", 4},
			{"post", "c2s", "binary", 4},
		} {
			scns = append(scns, e2eScn{ID: id, Transport: "upgrade", Recovery: round%2 == 1, Dir: h.dir, Clients: 1,
				Emitters: h.emitters, Per: 50, Size: h.phase2, Names: []int{0, 1, 4, 7, 8, 9, 12, 13}, Mid: true, Held: h.held, Seed: r.U64()})
			id++
		}
	}
	// connect window: events before / while / after the client processes the CONNECT reply, with a
	// blocking client handler (e2e_connect.go)
	for round := 0; round < rounds; round++ {
		for _, tr := range []string{"polling", "websocket", "upgrade"} {
			scns = append(scns, e2eScn{ID: id, Transport: tr, Recovery: false, Dir: "s2c", Clients: 2,
				Emitters: 1 + r.Intn(4), Per: 6, Size: "tiny", Names: []int{0, 1, 2, 3, 4, 7, 8, 9, 10, 11, 12, 13},
				Held: "connect", Seed: r.U64()})
			id++
		}
	}
	// the special names: trailing backslash (C09) and the empty name, both directions
	for _, dir := range []string{"s2c", "c2s"} {
		for _, special := range []int{14, 15} {
			scns = append(scns, e2eScn{ID: id, Transport: "websocket", Recovery: false, Dir: dir, Clients: 1,
				Emitters: 2, Per: 4, Size: "tiny", Names: []int{0, special}, Seed: r.U64()})
			id++
		}
	}
	return scns
}

func e2eMain(args []string) error {
	fs := flag.NewFlagSet("e2e", flag.ExitOnError)
	seed := fs.Uint64("seed", 1, "")
	tier := fs.String("tier", "quick", "quick|thorough")
	outp := fs.String("out", "-", "")
	par := fs.Int("par", 8, "scenarios in parallel")
	only := fs.Int("only", -1, "run only the scenario with this id")
	wsLimit := fs.Int("wsclientlimit", 0, "websocket client read limit as the code stands (0 = follows the handshake)")
	strips := fs.Bool("strips", false, "model of the code as it stands: client drops a trailing string when a pid is known")
	list := fs.Bool("list", false, "print the scenario matrix only")
	fs.Parse(args)
	out, err := vk.NewOut(*outp)
	if err != nil {
		return err
	}
	defer out.Close()
	scns := e2eMatrix(*seed, *tier)
	if *list {
		for _, s := range scns {
			out.Put(s)
		}
		return nil
	}
	lim := e2eLimits{WsClientRead: *wsLimit, Strips: *strips}
	sem := make(chan struct{}, *par)
	var wg sync.WaitGroup
	for _, s := range scns {
		if *only >= 0 && s.ID != *only {
			continue
		}
		wg.Add(1)
		sem <- struct{}{}
		go func(s e2eScn) {
			defer wg.Done()
			defer func() { <-sem }()
			var row e2eRow
			for attempt := 0; attempt < 3; attempt++ {
				if s.Held == "connect" {
					row = e2eRunConnect(s, lim)
				} else if s.Held != "" {
					row = e2eRunHeld(s, lim)
				} else {
					row = e2eRunScenario(s, lim)
				}
				if row.Setup == "" {
					break // only environmental set-up failures are retried, never a recorded history
				}
			}
			out.Put(row)
		}(s)
	}
	wg.Wait()
	return nil
}
