package main

import (
	"encoding/json"
	"flag"
	"fmt"
	"net/http/httptest"
	"strconv"
	"strings"
	"sync"
	"time"

	sio "github.com/karagenc/socket.io-go"
	eio "github.com/karagenc/socket.io-go/engine.io"
	eioparser "github.com/karagenc/socket.io-go/engine.io/parser"

	"verifharness/vk"
)

// offline: a real client (Manager + socket on "/", reconnection off, polling) against a RAW
// Socket.IO server: the repo's engine.io server with a hand-written Socket.IO layer that records
// every message in wire order, answers CONNECT only when told to, can send events (with ack ids)
// before the CONNECT reply, and can cut the connection.  A case is a history of the operations of
// the model Sio/OfflineBuffer.v:
//
//	{"op":"emit","l":L,"vol":b,"ack":b,"att":k}   socket.Emit / Volatile().Emit("m", L, k attachments[, ack])
//	{"op":"open"}                                   socket.Connect() / Manager.Open()  (only when down)
//	{"op":"reply"}                                  server sends the CONNECT reply     (only when pending)
//	{"op":"close"}                                  server closes the connection       (when pending/connected)
//	{"op":"timeout","id":n}                        the ack time-out of the emit with ack id n expires now
//	                                                (only in histories run one at a time: the timer goroutines
//	                                                are held at the yield point "ack-timer-after-sleep")
//	{"op":"recv","l":L,"id":n|-1,"hs":"NS.."}       server sends EVENT "e<hs>"(L) with ack id n; the client
//	                                                has one handler per letter: N no ack parameter,
//	                                                S ack parameter called at once, Q ack parameter not called
//
// After every operation the rig waits for its effect (a sentinel event through the same pipe when the
// socket is connected; the parked-event count of the client otherwise), then notes what the server
// received since the previous operation and which handlers ran.  Output: per operation the wire
// items [kind,label,index,ack] (kind 0 CONNECT, 1 event frame, 2 ACK) and the handler calls [label,h].
func init() { register("offline", offlineMain) }

type offOp struct {
	Op  string `json:"op"`
	L   int    `json:"l,omitempty"`
	Vol bool   `json:"vol,omitempty"`
	Ack bool   `json:"ack,omitempty"`
	Att int    `json:"att,omitempty"`
	// "" plain; with an ack and a (long, never expiring) time-out through the Emitter chain:
	// "t" Timeout(d).Emit, "vt" Volatile().Timeout(d).Emit, "tv" Timeout(d).Volatile().Emit
	Chain string `json:"chain,omitempty"`
	// Tmo: emit with an ack and a 1 ms time-out (volatile ones through Volatile().Timeout): the timer
	// goroutine is parked at the verif yield point after its sleep until a "timeout" operation lets
	// one go; which emit it belongs to is learnt from the callback and written into that operation
	Tmo bool   `json:"tmo,omitempty"`
	ID  int    `json:"id"`
	Hs  string `json:"hs,omitempty"`
}

type offCase struct {
	Ops     []offOp    `json:"ops"`
	Wire    [][][4]int `json:"wire"`  // per op: items [kind,label,idx,ack(-1 none)]
	Calls   [][][2]int `json:"calls"` // per op: [label, handler index]
	Timeout string     `json:"timeout"`
	Retried bool       `json:"retried"`
}

var offHandlerMenu = []string{"N", "S", "Q", "NN", "NS", "SN", "SS", "QS", "SQ", "NQ"}

type offServer struct {
	mu      sync.Mutex
	cond    *sync.Cond
	cur     eio.ServerSocket
	conns   int
	items   [][4]int // wire items since the last take()
	syncs   int      // sentinel events seen
	lastHdr [4]int   // header frame awaiting its attachments
	attLeft int
	attIdx  int
}

// parse one Socket.IO text frame of namespace "/"
func (s *offServer) onText(data string) {
	if data == "" {
		return
	}
	typ := data[0]
	rest := data[1:]
	natt := 0
	if typ == '5' || typ == '6' {
		i := strings.IndexByte(rest, '-')
		natt, _ = strconv.Atoi(rest[:i])
		rest = rest[i+1:]
	}
	id := -1
	j := 0
	for j < len(rest) && rest[j] >= '0' && rest[j] <= '9' {
		j++
	}
	if j > 0 {
		id, _ = strconv.Atoi(rest[:j])
		rest = rest[j:]
	}
	switch typ {
	case '0':
		s.items = append(s.items, [4]int{0, 0, 0, -1})
	case '2', '5':
		// ["m",L,...] or ["sync",k]
		if strings.HasPrefix(rest, `["sync"`) {
			s.syncs++
			return
		}
		label := -1
		if strings.HasPrefix(rest, `["m",`) {
			k := 5
			e := k
			for e < len(rest) && rest[e] >= '0' && rest[e] <= '9' {
				e++
			}
			label, _ = strconv.Atoi(rest[k:e])
		}
		s.items = append(s.items, [4]int{1, label, 0, id})
		s.lastHdr, s.attLeft, s.attIdx = [4]int{1, label, 0, id}, natt, 1
	case '3', '6':
		s.items = append(s.items, [4]int{2, 0, 0, id})
	default:
		s.items = append(s.items, [4]int{9, int(typ), 0, id})
	}
}

func (s *offServer) onPackets(packets ...*eioparser.Packet) {
	s.mu.Lock()
	defer s.mu.Unlock()
	for _, p := range packets {
		if p.Type != eioparser.PacketTypeMessage {
			continue
		}
		if p.IsBinary {
			if s.attLeft > 0 {
				s.items = append(s.items, [4]int{1, s.lastHdr[1], s.attIdx, s.lastHdr[3]})
				s.attIdx++
				s.attLeft--
			} else {
				s.items = append(s.items, [4]int{8, 0, 0, -1}) // attachment without a header
			}
			continue
		}
		s.onText(string(p.Data))
	}
	s.cond.Broadcast()
}

func (s *offServer) send(text string) {
	s.mu.Lock()
	cur := s.cur
	s.mu.Unlock()
	if cur == nil {
		return
	}
	p, _ := eioparser.NewPacket(eioparser.PacketTypeMessage, false, []byte(text))
	cur.Send(p)
}

// timer goroutines held at the yield point (only while histories with time-outs run, one at a time)
var offParked chan chan struct{}

func offYield(point string) {
	if point != "ack-timer-after-sleep" || offParked == nil {
		return
	}
	ch := make(chan struct{})
	offParked <- ch
	<-ch
}

func runOffline(ops []offOp) offCase {
	ops = append([]offOp{}, ops...)
	res := offCase{Ops: ops, Wire: [][][4]int{}, Calls: [][][2]int{}}
	ackOf := map[int]int{} // label -> ack id, by the client's rule: one id per emit with an ack, in order
	nextAck := 0
	timedOut := make(chan int, 64) // labels whose time-out callback ran
	srv := &offServer{}
	srv.cond = sync.NewCond(&srv.mu)
	es := eio.NewServer(func(sock eio.ServerSocket) *eio.Callbacks {
		srv.mu.Lock()
		srv.cur = sock
		srv.conns++
		srv.cond.Broadcast()
		srv.mu.Unlock()
		return &eio.Callbacks{OnPacket: srv.onPackets}
	}, &eio.ServerConfig{})
	if err := es.Run(); err != nil {
		panic(err)
	}
	ts := httptest.NewServer(es)
	defer func() {
		es.Close()
		ts.CloseClientConnections()
		go ts.Close()
	}()

	manager := sio.NewManager(ts.URL, &sio.ManagerConfig{
		NoReconnection: true,
		EIO:            eio.ClientConfig{Transports: []string{"polling"}},
	})
	socket := manager.Socket("/", nil)

	var cmu sync.Mutex
	ccond := sync.NewCond(&cmu)
	calls := [][2]int{}
	connects, closes := 0, 0
	note := func(f func()) { cmu.Lock(); f(); ccond.Broadcast(); cmu.Unlock() }
	for _, name := range offHandlerMenu {
		for hi, kind := range name {
			hi := hi
			switch kind {
			case 'N':
				socket.OnEvent("e"+name, func(l int) { note(func() { calls = append(calls, [2]int{l, hi}) }) })
			case 'S':
				socket.OnEvent("e"+name, func(l int, ack func()) {
					note(func() { calls = append(calls, [2]int{l, hi}) })
					ack()
				})
			case 'Q':
				socket.OnEvent("e"+name, func(l int, ack func()) { note(func() { calls = append(calls, [2]int{l, hi}) }) })
			}
		}
	}
	socket.OnConnect(func() { note(func() { connects++ }) })
	manager.OnClose(func(sio.Reason, error) { note(func() { closes++ }) })

	const wait = 5 * time.Second
	waitC := func(pred func() bool) bool { // client side condition
		deadline := time.Now().Add(wait)
		t := time.AfterFunc(wait, func() { cmu.Lock(); ccond.Broadcast(); cmu.Unlock() })
		defer t.Stop()
		cmu.Lock()
		defer cmu.Unlock()
		for !pred() {
			if time.Now().After(deadline) {
				return false
			}
			ccond.Wait()
		}
		return true
	}
	waitS := func(pred func() bool) bool { // server side condition
		deadline := time.Now().Add(wait)
		t := time.AfterFunc(wait, func() { srv.mu.Lock(); srv.cond.Broadcast(); srv.mu.Unlock() })
		defer t.Stop()
		srv.mu.Lock()
		defer srv.mu.Unlock()
		for !pred() {
			if time.Now().After(deadline) {
				return false
			}
			srv.cond.Wait()
		}
		return true
	}
	syncN := 0
	// everything the client handed over before this call has reached the server afterwards
	flush := func() bool {
		syncN++
		n := syncN
		socket.Emit("sync", n)
		return waitS(func() bool { return srv.syncs >= n })
	}

	state := 'D' // the rig's own book-keeping of what it did: D down, P CONNECT sent, C connected
	opened := false
	for i, op := range ops {
		ok := true
		switch op.Op {
		case "emit":
			args := []any{op.L}
			for a := 0; a < op.Att; a++ {
				args = append(args, sio.Binary{byte(op.L), byte(a)})
			}
			const never = 10 * time.Minute
			if op.Ack || op.Chain != "" || op.Tmo {
				ackOf[op.L] = nextAck
				nextAck++
			}
			switch {
			case op.Tmo:
				l := op.L
				args = append(args, func(err error) {
					if err != nil {
						timedOut <- l
					}
				})
				if op.Vol {
					socket.Volatile().Timeout(time.Millisecond).Emit("m", args...)
				} else {
					socket.Timeout(time.Millisecond).Emit("m", args...)
				}
			case op.Chain != "":
				args = append(args, func(err error) {})
				switch op.Chain {
				case "vt":
					socket.Volatile().Timeout(never).Emit("m", args...)
				case "tv":
					socket.Timeout(never).Volatile().Emit("m", args...)
				default:
					socket.Timeout(never).Emit("m", args...)
				}
			default:
				if op.Ack {
					args = append(args, func() {})
				}
				if op.Vol {
					socket.Volatile().Emit("m", args...)
				} else {
					socket.Emit("m", args...)
				}
			}
			if state == 'C' {
				ok = flush()
			}
		case "open":
			srv.mu.Lock()
			c0 := srv.conns
			srv.mu.Unlock()
			if !opened {
				socket.Connect()
				opened = true
			} else {
				manager.Open()
			}
			ok = waitS(func() bool {
				if srv.conns <= c0 {
					return false
				}
				for _, it := range srv.items {
					if it[0] == 0 {
						return true
					}
				}
				return false
			})
			state = 'P'
		case "reply":
			cmu.Lock()
			n0 := connects
			cmu.Unlock()
			srv.send(`0{"sid":"verif-sid-` + strconv.Itoa(i) + `"}`)
			ok = waitC(func() bool { return connects > n0 })
			state = 'C'
			if ok {
				ok = flush()
			}
		case "close":
			cmu.Lock()
			n0 := closes
			cmu.Unlock()
			srv.mu.Lock()
			cur := srv.cur
			srv.cur = nil
			srv.mu.Unlock()
			if cur != nil {
				cur.Close()
			}
			ok = waitC(func() bool { return closes > n0 })
			state = 'D'
		case "timeout":
			// let one held timer goroutine go: it purges the send buffer, then calls the ack with the error
			select {
			case ch := <-offParked:
				close(ch)
				select {
				case l := <-timedOut:
					ops[i].ID = ackOf[l]
					if state == 'C' {
						ok = flush()
					}
				case <-time.After(wait):
					ok = false
				}
			case <-time.After(wait):
				ok = false
			}
		case "recv":
			idText := ""
			if op.ID >= 0 {
				idText = strconv.Itoa(op.ID)
			}
			cmu.Lock()
			c0 := len(calls)
			cmu.Unlock()
			p0 := sio.VerifReceiveBufferLen(socket)
			srv.send("2" + idText + `["e` + op.Hs + `",` + strconv.Itoa(op.L) + `]`)
			if state == 'C' {
				ok = waitC(func() bool { return len(calls) >= c0+len(op.Hs) })
				if ok {
					ok = flush()
				}
			} else {
				deadline := time.Now().Add(wait)
				for sio.VerifReceiveBufferLen(socket) < p0+len(op.Hs) {
					if time.Now().After(deadline) {
						ok = false
						break
					}
					time.Sleep(200 * time.Microsecond)
				}
			}
		default:
			panic("offline: unknown op " + op.Op)
		}
		srv.mu.Lock()
		res.Wire = append(res.Wire, append([][4]int{}, srv.items...))
		srv.items = nil
		srv.mu.Unlock()
		cmu.Lock()
		res.Calls = append(res.Calls, append([][2]int{}, calls...))
		calls = calls[:0]
		cmu.Unlock()
		if !ok {
			res.Timeout = fmt.Sprintf("op %d (%s)", i, op.Op)
			break
		}
	}
	manager.Close()
	for offParked != nil { // timers of this history that were never let go
		select {
		case ch := <-offParked:
			close(ch)
			continue
		case <-time.After(20 * time.Millisecond):
		}
		break
	}
	return res
}

// histories the rig can drive: open only when down, reply only when pending, close / recv only with a connection
func genOffline(r *vk.Rand, maxOps int) []offOp {
	ops := []offOp{}
	state := 'D'
	label := 1
	n := 3 + r.Intn(maxOps-2)
	for len(ops) < n {
		k := r.Intn(10)
		switch {
		case k < 4:
			e := offOp{Op: "emit", L: label, Vol: r.Intn(3) == 0, Ack: r.Intn(3) == 0, Att: []int{0, 0, 0, 1, 2}[r.Intn(5)]}
			if e.Ack && r.Intn(2) == 0 { // ack with a time-out: through the Emitter chain, both orders
				e.Chain = "t"
				if e.Vol {
					e.Chain = []string{"vt", "tv"}[r.Intn(2)]
				}
			}
			ops = append(ops, e)
			label++
		case k < 6:
			switch state {
			case 'D':
				ops = append(ops, offOp{Op: "open"})
				state = 'P'
			case 'P':
				ops = append(ops, offOp{Op: "reply"})
				state = 'C'
			default:
				ops = append(ops, offOp{Op: "close"})
				state = 'D'
			}
		case k < 7:
			if state == 'P' {
				ops = append(ops, offOp{Op: "reply"})
				state = 'C'
			} else if state == 'C' && r.Intn(2) == 0 {
				ops = append(ops, offOp{Op: "close"})
				state = 'D'
			}
		default:
			if state == 'D' {
				continue
			}
			hs := offHandlerMenu[r.Intn(len(offHandlerMenu))]
			id := -1
			if r.Intn(4) != 0 {
				id = []int{0, 1, 1, 2, 7}[r.Intn(5)] // repeated ids on purpose
			} else {
				hs = []string{"N", "NN"}[r.Intn(2)] // without an ack id only handlers without ack parameter
			}
			ops = append(ops, offOp{Op: "recv", L: label, ID: id, Hs: hs})
			label++
		}
	}
	if state == 'P' && r.Intn(4) != 0 {
		ops = append(ops, offOp{Op: "reply"})
	}
	return ops
}

// histories with expiring ack time-outs of parked emits (0..3 attachments) between other emits
func genOfflineTimeouts(r *vk.Rand) []offOp {
	ops := []offOp{}
	state := 'D'
	label := 1
	pending := 0 // timers armed and not yet let go
	n := 5 + r.Intn(8)
	if r.Intn(3) == 0 {
		ops = append(ops, offOp{Op: "open"}, offOp{Op: "reply"}, offOp{Op: "close"})
	}
	for len(ops) < n {
		k := r.Intn(10)
		switch {
		case k < 3:
			ops = append(ops, offOp{Op: "emit", L: label, Vol: r.Intn(5) == 0, Ack: true, Tmo: true, Att: r.Intn(4)})
			label++
			pending++
		case k < 6:
			ops = append(ops, offOp{Op: "emit", L: label, Vol: r.Intn(5) == 0, Ack: r.Intn(3) == 0, Att: []int{0, 0, 1, 2}[r.Intn(4)]})
			label++
		case k < 8:
			if pending > 0 {
				ops = append(ops, offOp{Op: "timeout"})
				pending--
			}
		default:
			switch state {
			case 'D':
				ops = append(ops, offOp{Op: "open"})
				state = 'P'
			case 'P':
				if r.Intn(2) == 0 {
					ops = append(ops, offOp{Op: "reply"})
					state = 'C'
				}
			default:
				if r.Intn(3) == 0 {
					ops = append(ops, offOp{Op: "close"})
					state = 'D'
				}
			}
		}
	}
	if state == 'D' {
		ops = append(ops, offOp{Op: "open"})
		state = 'P'
	}
	if state == 'P' {
		ops = append(ops, offOp{Op: "reply"})
	}
	return ops
}

func offlineMain(args []string) error {
	fs := flag.NewFlagSet("offline", flag.ExitOnError)
	seed := fs.Uint64("seed", 1, "")
	n := fs.Int("n", 100, "number of generated histories (after the fixed ones)")
	par := fs.Int("par", 10, "cases run concurrently")
	outp := fs.String("out", "-", "")
	replay := fs.String("replay", "", "one history as a JSON list of operations: run exactly that")
	fs.Parse(args)
	out, err := vk.NewOut(*outp)
	if err != nil {
		return err
	}
	defer out.Close()
	r := vk.NewRand(*seed)
	if *replay != "" {
		var ops []offOp
		if err := json.Unmarshal([]byte(*replay), &ops); err != nil {
			return err
		}
		for i := range ops {
			if ops[i].Op == "recv" && !strings.Contains(*replay, `"id"`) {
				ops[i].ID = 0
			}
		}
		for _, o := range ops {
			if o.Op == "timeout" {
				offParked = make(chan chan struct{}, 256)
				sio.VerifSetYieldHandler(offYield)
			}
		}
		out.Put(runOffline(ops))
		return nil
	}

	E := func(l int, vol, ack bool, att int) offOp {
		return offOp{Op: "emit", L: l, Vol: vol, Ack: ack, Att: att}
	}
	R := func(l, id int, hs string) offOp { return offOp{Op: "recv", L: l, ID: id, Hs: hs} }
	O, Y, X := offOp{Op: "open"}, offOp{Op: "reply"}, offOp{Op: "close"}
	C := func(l int, chain string) offOp {
		return offOp{Op: "emit", L: l, Vol: chain != "t", Ack: true, Chain: chain}
	}
	cases := [][]offOp{
		// volatile emits with ack + time-out (Emitter chain in both orders): dropped while down and while pending
		{C(1, "vt"), C(2, "tv"), C(3, "t"), E(4, false, false, 0), O, C(5, "vt"), C(6, "tv"), C(7, "t"), Y, C(8, "vt"), C(9, "tv")},
		{O, Y, X, C(1, "tv"), C(2, "vt"), E(3, false, false, 1), O, C(4, "vt"), Y},
		// emits before the first connect, volatile dropped
		{E(1, false, false, 0), E(2, true, false, 0), E(3, false, true, 1), O, Y, E(4, true, false, 0)},
		// emits while the CONNECT is pending are parked as well
		{O, E(1, false, false, 0), E(2, true, false, 0), E(3, false, false, 2), Y},
		// an event with ack id parked before the reply, handler acks at once, then offline emits must still go out
		{E(1, false, false, 0), O, R(2, 5, "S"), E(3, false, false, 0), Y},
		// two handlers for one parked event with ack id
		{E(1, false, false, 0), O, R(2, 5, "NS"), R(3, 6, "N"), Y},
		{O, R(1, 5, "SS"), R(2, 5, "S"), E(3, false, true, 0), Y, E(4, false, false, 0)},
		{O, R(1, 1, "Q"), R(2, 1, "N"), E(3, false, false, 1), Y},
		// reconnect: emits during the outage, delivered after the second reply
		{O, Y, E(1, false, false, 0), X, E(2, false, false, 0), E(3, true, false, 0), E(4, false, true, 2), O, E(5, false, false, 0), Y, E(6, true, false, 0)},
		{O, Y, R(1, 3, "S"), R(2, -1, "NN"), X, O, R(3, 3, "N"), Y},
		// a connection lost before the reply: nothing is sent, everything stays parked for the next one
		{E(1, false, false, 0), O, X, E(2, false, false, 0), O, Y},
	}
	for i := 0; i < *n; i++ {
		cases = append(cases, genOffline(r, 12))
	}
	results := make([]offCase, len(cases))
	sem := make(chan struct{}, *par)
	var wg sync.WaitGroup
	for i := range cases {
		wg.Add(1)
		sem <- struct{}{}
		go func(i int) {
			defer wg.Done()
			defer func() { <-sem }()
			res := runOffline(cases[i])
			if res.Timeout != "" {
				res = runOffline(cases[i])
				res.Retried = true
			}
			results[i] = res
		}(i)
	}
	wg.Wait()
	for _, res := range results {
		out.Put(res)
	}
	// histories with expiring time-outs: one at a time, timer goroutines held at the yield point
	T := func(l int, vol bool, att int) offOp {
		return offOp{Op: "emit", L: l, Vol: vol, Ack: true, Tmo: true, Att: att}
	}
	Z := offOp{Op: "timeout"}
	tcases := [][]offOp{
		{E(1, false, false, 0), T(2, false, 1), E(3, false, false, 0), Z, E(4, false, false, 0), O, Y},
		{T(1, false, 0), T(2, false, 2), T(3, false, 3), Z, Z, E(4, false, true, 1), O, Z, E(5, false, false, 0), Y},
		{O, T(1, false, 3), E(2, false, false, 2), T(3, true, 1), Z, Z, Y, E(4, false, false, 0)},
		{O, Y, X, E(1, false, false, 0), T(2, false, 2), E(3, false, true, 0), Z, O, Y},
		{T(1, false, 1), O, Y, Z, E(2, false, false, 0)}, // time-out after the packet has left: nothing to purge
	}
	nt := *n / 4
	if *n == 0 {
		nt = 0
	}
	for i := 0; i < nt; i++ {
		tcases = append(tcases, genOfflineTimeouts(r))
	}
	offParked = make(chan chan struct{}, 256)
	sio.VerifSetYieldHandler(offYield)
	for _, ops := range tcases {
		res := runOffline(ops)
		if res.Timeout != "" {
			res = runOffline(ops)
			res.Retried = true
		}
		out.Put(res)
	}
	sio.VerifSetYieldHandler(nil)
	offParked = nil
	return nil
}
