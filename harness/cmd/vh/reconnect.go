package main

import (
	"bytes"
	"context"
	"encoding/json"
	"flag"
	"fmt"
	"net/http"
	"net/http/httptest"
	"os"
	"sync"
	"time"

	sio "github.com/karagenc/socket.io-go"
	eio "github.com/karagenc/socket.io-go/engine.io"

	"verifharness/vk"
)

// reconnect: drives a real sio.Manager (+ one socket on "/") against a real sio.Server that sits
// behind a gate deciding, handshake by handshake, whether a dial succeeds.  A script is a list of
// inputs of the model Sio/Reconnect.v:
//
//	"open"            Manager.Open()
//	"ok"              the next dial reaches the server
//	"f503" "garbage" "hang"   the next dial fails: HTTP 503 / connection reset / black-holed until the
//	                        client's handshake timeout
//	"drop"            the server side cuts every TCP connection of the client
//	"close"           Manager.Close()
//	"abort" "sabort"  Manager.Close() / socket.Disconnect() while the manager sleeps in a back-off delay
//
// Recorded: the manager events in handler order with monotonic time stamps, interleaved with markers
// for the rig's own actions and for every dial the gate saw.  While the socket is down the rig emits
// one numbered event per close / reconnect_error (alternating volatile / non-volatile); the server
// records what arrives, so the same run also shows offline delivery end to end.
//
// Scripts are generated complete: they end with the manager connected or idle, so every wait of
// the rig has a definite event to wait for; a settle window afterwards catches anything extra.
func init() { register("reconnect", reconnectMain) }

type rcEvent struct {
	K string `json:"k"` // event / marker name
	N int64  `json:"n"` // attempt number (reconnect_attempt, reconnect)
	T int64  `json:"t"` // ns since the start of the case
}

type rcCase struct {
	Limit   uint32    `json:"limit"`
	NoRecon bool      `json:"norecon"`
	MinNs   int64     `json:"min"`
	MaxNs   int64     `json:"max"`
	Jitter  bool      `json:"jitter"` // randomization factor 0.5 instead of 0
	Script  []string  `json:"script"`
	Events  []rcEvent `json:"events"`
	Extra   int       `json:"extra_dials"` // dials the gate saw beyond the script
	Timeout bool      `json:"timeout"`     // a wait of the rig expired (see Events for how far it got)
	Emitted []int     `json:"emitted"`     // numbers emitted while the socket was down, in order (odd = volatile)
	Arrived []int     `json:"arrived"`     // numbers the server handler saw, in order
	Retried bool      `json:"retried"`
}

type rcGate struct {
	mu      sync.Mutex
	queue   []string
	live    map[string]bool // sids seen on requests
	dead    map[string]bool // sids cut by "drop": every later request of them is refused
	extra   int
	onDial  func(kind string)
	handler http.Handler
}

func (g *rcGate) push(kinds ...string) {
	g.mu.Lock()
	g.queue = append(g.queue, kinds...)
	g.mu.Unlock()
}

// cut marks every session seen so far as dead
func (g *rcGate) cut() {
	g.mu.Lock()
	for sid := range g.live {
		g.dead[sid] = true
	}
	g.live = map[string]bool{}
	g.mu.Unlock()
}

func (g *rcGate) pending() int {
	g.mu.Lock()
	defer g.mu.Unlock()
	return len(g.queue)
}

func (g *rcGate) ServeHTTP(w http.ResponseWriter, r *http.Request) {
	if sid := r.URL.Query().Get("sid"); sid != "" {
		g.mu.Lock()
		dead := g.dead[sid]
		if !dead {
			g.live[sid] = true
		}
		g.mu.Unlock()
		if dead {
			w.WriteHeader(http.StatusBadRequest)
			return
		}
		g.handler.ServeHTTP(w, r)
		return
	}
	g.mu.Lock()
	kind := "extra"
	if len(g.queue) > 0 {
		kind = g.queue[0]
		g.queue = g.queue[1:]
	} else {
		g.extra++
	}
	g.mu.Unlock()
	g.onDial(kind)
	switch kind {
	case "ok":
		g.handler.ServeHTTP(w, r)
	case "garbage":
		w.WriteHeader(http.StatusOK)
		w.Write([]byte("this is not an engine.io handshake"))
	case "hang":
		<-r.Context().Done() // black hole: never answer; the client gives up by its own timeout
	default: // f503, extra
		w.WriteHeader(http.StatusServiceUnavailable)
	}
}

// handshake requests (no sid) get a short client-side timeout, everything else none
type rcRoundTripper struct{ base http.RoundTripper }

func (rt rcRoundTripper) RoundTrip(r *http.Request) (*http.Response, error) {
	if r.URL.Query().Get("sid") == "" {
		ctx, cancel := context.WithTimeout(r.Context(), 250*time.Millisecond)
		resp, err := rt.base.RoundTrip(r.WithContext(ctx))
		if err != nil {
			cancel()
			return nil, err
		}
		// the handshake body is tiny: keep the deadline for reading it, release afterwards
		go func() { <-ctx.Done(); cancel() }()
		return resp, nil
	}
	return rt.base.RoundTrip(r)
}

func isDial(s string) bool { return s == "ok" || s == "f503" || s == "garbage" || s == "hang" }

func runReconnect(c rcCase) rcCase {
	start := time.Now()
	var mu sync.Mutex
	cond := sync.NewCond(&mu)
	rec := func(k string, n int64) {
		mu.Lock()
		c.Events = append(c.Events, rcEvent{K: k, N: n, T: int64(time.Since(start))})
		cond.Broadcast()
		mu.Unlock()
	}
	count := func(k string) int {
		n := 0
		for _, e := range c.Events {
			if e.K == k {
				n++
			}
		}
		return n
	}
	// the last dial the gate saw has been answered by an error event (to be called under mu)
	failedDialReported := func() bool {
		last := -1
		for i, e := range c.Events {
			if len(e.K) > 5 && e.K[:5] == "dial:" {
				last = i
			}
		}
		if last < 0 {
			return false
		}
		for _, e := range c.Events[last+1:] {
			if e.K == "error" {
				return true
			}
		}
		return false
	}
	// waitFor blocks until pred() (evaluated under mu) or the deadline
	waitFor := func(pred func() bool, d time.Duration) bool {
		deadline := time.Now().Add(d)
		timer := time.AfterFunc(d, func() { mu.Lock(); cond.Broadcast(); mu.Unlock() })
		defer timer.Stop()
		mu.Lock()
		defer mu.Unlock()
		for !pred() {
			if time.Now().After(deadline) {
				return false
			}
			cond.Wait()
		}
		return true
	}

	server := sio.NewServer(&sio.ServerConfig{})
	server.OnConnection(func(s sio.ServerSocket) {
		s.OnEvent("m", func(n int) {
			mu.Lock()
			c.Arrived = append(c.Arrived, n)
			cond.Broadcast()
			mu.Unlock()
		})
	})
	if err := server.Run(); err != nil {
		panic(err)
	}
	gate := &rcGate{handler: server, live: map[string]bool{}, dead: map[string]bool{}, onDial: func(kind string) { rec("dial:"+kind, 0) }}
	ts := httptest.NewServer(gate)
	defer func() {
		// end the sessions first so that parked long-polls return, then the listener; Close of the
		// test server waits for handlers still running (a black-holed handshake), so do not wait for it
		server.Close()
		ts.CloseClientConnections()
		go ts.Close()
	}()

	minD, maxD := time.Duration(c.MinNs), time.Duration(c.MaxNs)
	var factor float32
	if c.Jitter {
		factor = 0.5
	}
	base := http.DefaultTransport.(*http.Transport).Clone()
	manager := sio.NewManager(ts.URL, &sio.ManagerConfig{
		NoReconnection:       c.NoRecon,
		ReconnectionAttempts: c.Limit,
		ReconnectionDelay:    &minD,
		ReconnectionDelayMax: &maxD,
		RandomizationFactor:  &factor,
		EIO: eio.ClientConfig{
			Transports:    []string{"polling"},
			HTTPTransport: rcRoundTripper{base: base},
		},
	})
	defer base.CloseIdleConnections()
	socket := manager.Socket("/", nil)
	seq := 0
	var emitMu sync.Mutex
	emitDown := func() {
		// called from manager event handlers while the socket is down; numbering and emitting are
		// one critical section (the handlers of different events run on different goroutines)
		emitMu.Lock()
		defer emitMu.Unlock()
		mu.Lock()
		n := seq
		seq++
		c.Emitted = append(c.Emitted, n)
		mu.Unlock()
		if n%2 == 1 {
			socket.Volatile().Emit("m", n)
		} else {
			socket.Emit("m", n)
		}
	}
	manager.OnOpen(func() { rec("open", 0) })
	manager.OnError(func(err error) { rec("error", 0) })
	manager.OnClose(func(reason sio.Reason, err error) { rec("close", 0); emitDown() })
	manager.OnReconnectAttempt(func(n uint32) { rec("reconnect_attempt", int64(n)) })
	manager.OnReconnectError(func(err error) { rec("reconnect_error", 0); emitDown() })
	manager.OnReconnectFailed(func() { rec("reconnect_failed", 0) })
	manager.OnReconnect(func(n uint32) { rec("reconnect", int64(n)) })
	socket.OnConnect(func() {
		mu.Lock()
		n := seq
		mu.Unlock()
		rec("socket_connect", int64(n)) // n = how many numbered events were emitted before this connect
	})

	const wait = 6 * time.Second
	settle := maxD + 60*time.Millisecond // longer than any back-off delay: an attempt that should not follow would show
	if settle > 300*time.Millisecond {
		settle = 300 * time.Millisecond // scripts with long delays (aborted cycles) are about something else
	}
	first := true
	i := 0
	for i < len(c.Script) && !c.Timeout {
		in := c.Script[i]
		switch {
		case in == "open":
			// arm the gate with the dial outcomes that follow, then open
			j := i + 1
			for j < len(c.Script) && isDial(c.Script[j]) {
				j++
			}
			dials := c.Script[i+1 : j]
			mu.Lock()
			conn0 := count("socket_connect")
			mu.Unlock()
			gate.push(dials...)
			rec("in:open", 0)
			if first {
				socket.Connect() // registers the socket with the manager and opens it
				first = false
			} else {
				manager.Open()
			}
			i = j
			if len(dials) == 0 {
				continue
			}
			ok := dials[len(dials)-1] == "ok"
			if !waitFor(func() bool {
				if gate.pending() > 0 {
					return false
				}
				if ok {
					return count("socket_connect") > conn0
				}
				return failedDialReported()
			}, wait) {
				c.Timeout = true
			}
		case in == "drop":
			j := i + 1
			for j < len(c.Script) && isDial(c.Script[j]) {
				j++
			}
			dials := c.Script[i+1 : j]
			mu.Lock()
			conn0, close0 := count("socket_connect"), count("close")
			mu.Unlock()
			gate.push(dials...)
			rec("in:drop", 0)
			gate.cut()
			ts.CloseClientConnections() // aborts the poll in flight; its retry meets the dead sid
			i = j
			ok := len(dials) > 0 && dials[len(dials)-1] == "ok"
			if !waitFor(func() bool {
				if count("close") <= close0 || gate.pending() > 0 {
					return false
				}
				if ok {
					return count("socket_connect") > conn0
				}
				return len(dials) == 0 || failedDialReported()
			}, wait) {
				c.Timeout = true
			}
		case in == "close":
			mu.Lock()
			close0 := count("close")
			mu.Unlock()
			rec("in:close", 0)
			manager.Close()
			i++
			if !waitFor(func() bool { return count("close") > close0 }, wait) {
				c.Timeout = true
			}
		case in == "abort" || in == "sabort":
			// the application gives up in the middle of a retry cycle: the previous step ended with the
			// report of a failed dial (or with the close event), so the manager has just begun to sleep
			// in its next back-off delay (these scripts use delays >= 400 ms); a moment later, well inside
			// that sleep, Manager.Close() resp. socket.Disconnect() is called
			time.Sleep(25 * time.Millisecond)
			mu.Lock()
			close0 := count("close")
			mu.Unlock()
			rec("in:abort", 0)
			if in == "abort" {
				manager.Close()
			} else {
				socket.Disconnect() // last active socket of the manager: ends in Manager.Close()
				first = true        // the socket has left the manager: the next open is socket.Connect()
			}
			i++
			if !waitFor(func() bool { return count("close") > close0 }, wait) {
				c.Timeout = true
			}
			// the sleeping retry loop (it holds the manager's connect mutex) ends with its delay
			time.Sleep(maxD)
		default:
			// a dial outcome without open/drop before it: generator error
			panic("reconnect: script not well formed: " + fmt.Sprint(c.Script))
		}
		// anything that follows by itself (reconnect_failed, or events that should not be there)
		if i < len(c.Script) && (c.Script[i] == "abort" || c.Script[i] == "sabort") {
			continue // the abort has to land inside the back-off sleep that has just begun
		}
		time.Sleep(settle)
	}
	// if the socket is connected at the end, everything emitted while it was down must have arrived
	mu.Lock()
	connected := len(c.Events) > 0 && socket.Connected()
	mu.Unlock()
	if connected && !c.Timeout {
		want := 0
		mu.Lock()
		for _, n := range c.Emitted {
			if n%2 == 0 {
				want++
			}
		}
		mu.Unlock()
		waitFor(func() bool { return len(c.Arrived) >= want }, 2*time.Second)
		time.Sleep(20 * time.Millisecond)
	}
	rec("in:end", 0)
	manager.Close()
	mu.Lock()
	c.Extra = gate.extra
	if c.Emitted == nil {
		c.Emitted = []int{}
	}
	if c.Arrived == nil {
		c.Arrived = []int{}
	}
	res := c
	res.Events = append([]rcEvent{}, c.Events...)
	res.Emitted = append([]int{}, c.Emitted...)
	res.Arrived = append([]int{}, c.Arrived...)
	mu.Unlock()
	return res
}

// reference policy used ONLY to generate complete scripts (scripts that end connected or idle)
type rcSim struct {
	phase    int // 0 idle, 1 open-dial, 2 recon-wait, 3 connected
	attempts uint32
}

func (s *rcSim) startReconnect(limit uint32) {
	if limit > 0 && s.attempts >= limit {
		s.attempts = 0
		s.phase = 0
		return
	}
	s.phase = 2
}

func (s *rcSim) step(in string, limit uint32, norecon bool) {
	switch {
	case in == "open" && s.phase == 0:
		s.phase = 1
	case isDial(in) && s.phase == 1:
		if in == "ok" {
			s.phase = 3
		} else if s.attempts == 0 && !norecon {
			s.startReconnect(limit)
		} else {
			s.phase = 0
		}
	case isDial(in) && s.phase == 2:
		s.attempts++
		if in == "ok" {
			s.attempts = 0
			s.phase = 3
		} else {
			s.startReconnect(limit)
		}
	case in == "drop" && s.phase == 3:
		s.attempts = 0
		if norecon {
			s.phase = 0
		} else {
			s.startReconnect(limit)
		}
	case in == "close":
		s.attempts = 0
		s.phase = 0
	}
}

func genScript(r *vk.Rand, limit uint32, norecon bool, maxDials int) []string {
	var s rcSim
	script := []string{}
	dials := 0
	fails := []string{"f503", "garbage", "f503", "garbage", "hang"}
	for steps := 0; steps < 40; steps++ {
		switch s.phase {
		case 0:
			if len(script) > 0 && (dials >= maxDials-1 || r.Intn(3) == 0) {
				return script
			}
			if len(script) > 0 && r.Intn(6) == 0 {
				script = append(script, "close")
				s.step("close", limit, norecon)
				continue
			}
			script = append(script, "open")
			s.step("open", limit, norecon)
		case 1, 2:
			in := "ok"
			// without a limit the outage must end; with a limit it may run into the limit
			if dials < maxDials-1 && r.Intn(5) < 3 {
				in = fails[r.Intn(len(fails))]
			} else if limit > 0 && !norecon && r.Intn(3) == 0 {
				in = fails[r.Intn(len(fails))]
			}
			if limit == 0 && !norecon && dials >= maxDials-1 {
				in = "ok"
			}
			script = append(script, in)
			s.step(in, limit, norecon)
			dials++
		case 3:
			if dials >= maxDials-1 || r.Intn(3) == 0 {
				if r.Intn(4) == 0 {
					script = append(script, "close")
				}
				return script
			}
			script = append(script, "drop")
			s.step("drop", limit, norecon)
		}
	}
	return script
}

func reconnectMain(args []string) error {
	fs := flag.NewFlagSet("reconnect", flag.ExitOnError)
	seed := fs.Uint64("seed", 1, "")
	n := fs.Int("n", 60, "number of generated scripts (after the fixed ones)")
	par := fs.Int("par", 12, "cases run concurrently")
	outp := fs.String("out", "-", "")
	replay := fs.String("replay", "", "file with one case (JSON, as written by this engine) per line: run exactly those")
	fs.Parse(args)
	out, err := vk.NewOut(*outp)
	if err != nil {
		return err
	}
	defer out.Close()
	r := vk.NewRand(*seed)

	ms := int64(time.Millisecond)
	cases := []rcCase{}
	if *replay != "" {
		data, err := os.ReadFile(*replay)
		if err != nil {
			return err
		}
		for _, line := range bytes.Split(data, []byte("\n")) {
			if len(bytes.TrimSpace(line)) == 0 {
				continue
			}
			var c rcCase
			if err := json.Unmarshal(line, &c); err != nil {
				return err
			}
			cases = append(cases, rcCase{Limit: c.Limit, NoRecon: c.NoRecon, MinNs: c.MinNs, MaxNs: c.MaxNs, Jitter: c.Jitter, Script: c.Script})
		}
		for _, c := range cases {
			out.Put(runReconnect(c))
		}
		return nil
	}
	add := func(limit uint32, norecon bool, min, max int64, jitter bool, script ...string) {
		cases = append(cases, rcCase{Limit: limit, NoRecon: norecon, MinNs: min, MaxNs: max, Jitter: jitter, Script: script})
	}
	// fixed scripts: the statements of the property one by one, every attempt limit 0..5
	for limit := uint32(1); limit <= 5; limit++ {
		down := []string{"open", "ok", "drop"}
		for k := uint32(0); k < limit; k++ {
			down = append(down, []string{"f503", "garbage"}[k%2])
		}
		add(limit, false, 8*ms, 40*ms, false, down...)                                              // gives up after exactly N
		add(limit, false, 8*ms, 40*ms, false, append(append([]string{}, down...), "open", "ok")...) // and a later Open works again
		up := append(append([]string{}, down[:len(down)-1]...), "ok")
		add(limit, false, 8*ms, 40*ms, false, up...) // server back at the last permitted attempt
		openDown := []string{"open", "f503"}
		for k := uint32(0); k < limit; k++ {
			openDown = append(openDown, "garbage")
		}
		add(limit, false, 5*ms, 20*ms, false, openDown...) // Open() against a dead server
	}
	add(0, false, 5*ms, 20*ms, false, "open", "ok", "drop", "f503", "garbage", "f503", "garbage", "f503", "garbage", "ok")
	add(0, false, 5*ms, 20*ms, false, "open", "hang", "f503", "ok", "drop", "ok", "drop", "ok") // flapping
	add(0, true, 5*ms, 20*ms, false, "open", "ok", "drop")
	add(3, true, 5*ms, 20*ms, false, "open", "f503")
	add(2, false, 5*ms, 20*ms, false, "open", "ok", "drop", "hang", "hang")
	add(3, false, 6*ms, 20*ms, true, "open", "ok", "drop", "f503", "f503", "ok", "drop", "garbage", "ok")
	add(2, false, 5*ms, 20*ms, false, "open", "ok", "close", "open", "ok", "drop", "f503", "ok")
	// retry cycles aborted by the application in the k-th back-off sleep (k = 1..3), then a fresh connection
	// and a second outage: it must be a whole new cycle (attempt 1.., first delay, exactly N failures);
	// or the server is still down at the re-open: the retry loop must start again
	for k := 1; k <= 3; k++ {
		for _, ab := range []string{"abort", "sabort"} {
			pre := []string{"open", "ok", "drop"}
			for j := 1; j < k; j++ {
				pre = append(pre, []string{"f503", "garbage"}[j%2])
			}
			pre = append(pre, ab)
			if (k%2 == 1) == (ab == "abort") {
				add(4, false, 400*ms, 800*ms, false, append(append([]string{}, pre...), "open", "ok", "drop", "f503", "garbage", "f503", "f503")...)
			} else {
				add(3, false, 400*ms, 800*ms, false, append(append([]string{}, pre...), "open", "f503", "garbage", "ok", "drop", "ok")...)
			}
		}
	}
	for i := 0; i < *n; i++ {
		limit := uint32(r.Intn(6))
		norecon := r.Intn(8) == 0
		min := int64(5+r.Intn(6)) * ms
		max := min * int64(1+r.Intn(4))
		if max > 20*ms {
			max = 20 * ms
		}
		add(limit, norecon, min, max, r.Intn(3) == 0, genScript(r, limit, norecon, 5+r.Intn(6))...)
	}

	results := make([]rcCase, len(cases))
	sem := make(chan struct{}, *par)
	var wg sync.WaitGroup
	for i := range cases {
		wg.Add(1)
		sem <- struct{}{}
		go func(i int) {
			defer wg.Done()
			defer func() { <-sem }()
			res := runReconnect(cases[i])
			if res.Timeout {
				// environmental (overloaded machine) or real: run once more, alone in its slot
				res = runReconnect(cases[i])
				res.Retried = true
			}
			results[i] = res
		}(i)
	}
	wg.Wait()
	for _, res := range results {
		out.Put(res)
	}
	return nil
}
