package main

// e2e (C01), scenario family "held transfer": two transports deliver into ONE parser at the same
// time.  A hook-free http.RoundTripper keeps one long-polling transfer back:
//
//   held = "poll-resp"  (server -> client)  the client's next GET is kept back, the server queues
//          phase-1 events (multi-frame: binary attachments) in its polling transport, the GET goes
//          out and its RESPONSE - [header, attachment, ...]* - is kept "on the wire"; the upgrade to
//          websocket is let through; the server streams phase-2 events over websocket; while they
//          are arriving the held response is released, so the old polling transport and the
//          websocket reader feed the client's parser concurrently.
//   held = "post"       (client -> server)  the client's next POST is kept back (the sender holds
//          the transport lock), the upgrade is started and phase-2 events are emitted meanwhile;
//          then the POST is released.
//
// Same row format as the other e2e scenarios (emitted / delivered digests), so the same kernel
// oracle and model prediction apply.  phase2 = "plain" | "binary" selects what the websocket
// carries while the held transfer lands.

import (
	"bytes"
	"fmt"
	"io"
	"net/http"
	"net/http/httptest"
	"runtime"
	"sort"
	"strconv"
	"sync"
	"sync/atomic"
	"time"

	sio "github.com/karagenc/socket.io-go"
	eio "github.com/karagenc/socket.io-go/engine.io"
	"github.com/karagenc/socket.io-go/parser"
	jsonparser "github.com/karagenc/socket.io-go/parser/json"
	"github.com/karagenc/socket.io-go/parser/json/serializer"
	"github.com/karagenc/socket.io-go/parser/json/serializer/stdjson"
	"nhooyr.io/websocket"

	"verifharness/vk"
)

const e2eSyncName = "hold-sync-7f3a"

// A JSON library that is slow at reading event names (the header pre-scan inside Parser.Add):
// hook-free way (public jsonparser.NewCreator) to make every Add of a header frame take a while,
// so that whatever window exists between the Adds of one transport batch is wide open while the
// other transport delivers.  Behaviour is encoding/json's.
type e2eSlowJSON struct {
	serializer.JSONSerializer
	delay time.Duration
}

func (j *e2eSlowJSON) Unmarshal(data []byte, v any) error {
	if _, ok := v.(*[]string); ok {
		time.Sleep(j.delay)
	}
	return j.JSONSerializer.Unmarshal(data, v)
}

type e2eGate struct {
	base http.RoundTripper
	open chan struct{}
}

func (g *e2eGate) RoundTrip(req *http.Request) (*http.Response, error) {
	<-g.open
	return g.base.RoundTrip(req)
}

// keeps ONE transfer of the given method back, once armed (armed by the sync event going by)
type e2eHold struct {
	base     http.RoundTripper
	method   string
	armed    atomic.Bool
	used     atomic.Bool
	reqHeld  chan struct{} // closed when the request is being kept back
	sendGate chan struct{} // close to let the request go out
	respHeld chan int      // receives the body length when the response is being kept back
	recvGate chan struct{} // close to hand the response over
	holdResp bool
}

func (d *e2eHold) RoundTrip(req *http.Request) (*http.Response, error) {
	hold := false
	if req.Method == d.method && d.armed.Load() {
		hold = d.used.CompareAndSwap(false, true)
	}
	if hold {
		close(d.reqHeld)
		<-d.sendGate
	}
	resp, err := d.base.RoundTrip(req)
	if err != nil {
		return resp, err
	}
	body, err := io.ReadAll(resp.Body)
	resp.Body.Close()
	if err != nil {
		return nil, err
	}
	resp.Body = io.NopCloser(bytes.NewReader(body))
	if req.Method == http.MethodGet && bytes.Contains(body, []byte(e2eSyncName)) {
		d.armed.Store(true)
	}
	if hold && d.holdResp {
		d.respHeld <- len(body)
		<-d.recvGate
	}
	return resp, nil
}

func e2eRunHeld(scn e2eScn, lim e2eLimits) (row e2eRow) {
	t0 := time.Now()
	table := e2eNameTable()
	row.Scn = scn
	row.Names = table
	for i := range table {
		row.Trailing = append(row.Trailing, table[i].trailingStr())
		row.Arity = append(row.Arity, len(table[i].handlerKinds()))
	}
	row.Regs = map[string][]int{}
	for _, ni := range scn.Names {
		row.Regs[strconv.Itoa(ni)] = []int{0}
	}
	// Since fix 63b366a the client pauses polling before the swap: no delivery of the old transport
	// can be in flight while the websocket delivers, whatever the websocket carries.
	row.WsAttInFlight = false
	row.Emitted, row.Delivered, row.Errors, row.EmitPanic = []e2eEv{}, []e2eDel{}, []string{}, []string{}
	rec := &e2eRecorder{errors: map[string]int{}}
	rec.lastMove.Store(time.Now().UnixNano())
	var tearing atomic.Bool

	srv := sio.NewServer(&sio.ServerConfig{
		ServerConnectionStateRecovery: sio.ServerConnectionStateRecovery{Enabled: scn.Recovery},
	})
	if err := srv.Run(); err != nil {
		row.Setup = "server run: " + err.Error()
		return
	}
	ts := httptest.NewServer(srv)
	defer func() {
		tearing.Store(true)
		done := make(chan struct{})
		go func() {
			srv.Close()
			ts.CloseClientConnections()
			ts.Close()
			close(done)
		}()
		select {
		case <-done:
		case <-time.After(5 * time.Second):
		}
		row.WallMs = time.Since(t0).Milliseconds()
	}()

	s2c := scn.Dir == "s2c"
	wsGate := &e2eGate{base: http.DefaultTransport, open: make(chan struct{})}
	hold := &e2eHold{base: http.DefaultTransport, method: http.MethodGet, holdResp: true,
		reqHeld: make(chan struct{}), sendGate: make(chan struct{}), respHeld: make(chan int, 1), recvGate: make(chan struct{})}
	if !s2c {
		hold.method, hold.holdResp = http.MethodPost, false
	}
	var gatesOnce sync.Once
	openAll := func() { // never leave a goroutine parked in a gate
		gatesOnce.Do(func() {
			defer func() { recover() }()
			close(wsGate.open)
		})
		func() { defer func() { recover() }(); close(hold.sendGate) }()
		func() { defer func() { recover() }(); close(hold.recvGate) }()
	}
	defer openAll()

	upgraded := make(chan struct{}, 4)
	var pc parser.Creator
	if s2c {
		pc = jsonparser.NewCreator(0, &e2eSlowJSON{JSONSerializer: stdjson.New(), delay: 150 * time.Microsecond})
	}
	mgr := sio.NewManager(ts.URL, &sio.ManagerConfig{
		NoReconnection: true,
		ParserCreator:  pc,
		EIO: eio.ClientConfig{
			Transports:    []string{"polling", "websocket"},
			HTTPTransport: hold,
			WebSocketDialOptions: &websocket.DialOptions{
				CompressionMode: websocket.CompressionDisabled,
				HTTPClient:      &http.Client{Transport: wsGate},
			},
			UpgradeDone: func(string) { upgraded <- struct{}{} },
		},
	})
	mgr.OnError(func(err error) { rec.err("client", err) })
	mgr.OnClose(func(reason sio.Reason, err error) {
		if !tearing.Load() {
			rec.disc.Add(1)
			rec.err("client-close", fmt.Sprint(reason, " ", err))
		}
	})
	cs := mgr.Socket("/", nil)
	synced := make(chan struct{}, 4)
	cliConnected := make(chan struct{}, 4)
	srvSock := make(chan sio.ServerSocket, 4)
	cs.OnConnect(func() { cliConnected <- struct{}{} })
	cs.OnEvent(e2eSyncName, func() { synced <- struct{}{} })
	if s2c {
		for _, ni := range scn.Names {
			cs.OnEvent(table[ni].Name, rec.handler(0, ni, &table[ni]))
		}
	}
	srv.OnConnection(func(s sio.ServerSocket) {
		s.OnError(func(err error) { rec.err("server", err) })
		s.OnDisconnect(func(reason sio.Reason) {
			if !tearing.Load() {
				rec.disc.Add(1)
				rec.err("server-disconnect", reason)
			}
		})
		if !s2c {
			for _, ni := range scn.Names {
				s.OnEvent(table[ni].Name, rec.handler(0, ni, &table[ni]))
			}
		}
		srvSock <- s
	})
	cs.Connect()
	defer func() {
		go func() { defer func() { recover() }(); cs.Disconnect() }()
		time.Sleep(20 * time.Millisecond)
	}()

	waitFor := func(ch <-chan struct{}, what string) bool {
		select {
		case <-ch:
			return true
		case <-time.After(20 * time.Second):
			row.Setup = "timeout waiting for " + what
			return false
		}
	}
	if !waitFor(cliConnected, "client connect") {
		return
	}
	var ss sio.ServerSocket
	select {
	case ss = <-srvSock:
	case <-time.After(20 * time.Second):
		row.Setup = "timeout waiting for server connection"
		return
	}

	// emission plan: phase 1 (multi-frame names) and phase 2
	r := vk.NewRand(scn.Seed)
	multi := []int{8, 9, 12}       // bin, nested, 4bins
	plain := []int{0, 1, 4, 7, 13} // no attachments
	phase2 := plain
	if scn.Size == "binary" {
		phase2 = multi
	}
	type planned struct {
		ev   e2eEv
		vals []any
	}
	mkPlan := func(phase, emitters, per int, pool []int) [][]planned {
		out := make([][]planned, emitters)
		for e := 0; e < emitters; e++ {
			for s := 0; s < per; s++ {
				ni := pool[r.Intn(len(pool))]
				n := &table[ni]
				em := phase*100 + e
				vm, trees := e2eBuild(n, scn.Seed, 0, em, s, -1)
				text, att, natt, err := e2eMeasure(n.Name, vm)
				if err != nil {
					rec.err("measure", err)
				}
				ev := e2eEv{C: 0, N: ni, E: em, S: s, D: strconv.FormatUint(e2eDigest(trees), 10), Text: text, Att: att, NAtt: natt}
				ev.OK, ev.Key = e2ePredict(&scn, n, &ev, lim)
				vals, _ := e2eBuild(n, scn.Seed, 0, em, s, -1)
				out[e] = append(out[e], planned{ev: ev, vals: vals})
				row.Emitted = append(row.Emitted, ev)
			}
		}
		return out
	}
	plan1 := mkPlan(1, scn.Emitters, scn.Per, multi)
	per2 := 4 * scn.Per
	if scn.Size != "binary" {
		per2 = 6 * scn.Per // single-frame traffic: keep the stream going while the held response lands
	}
	plan2 := mkPlan(2, scn.Emitters, per2, phase2)
	expected := len(row.Emitted)
	n1 := scn.Emitters * scn.Per

	emitAll := func(plan [][]planned) *sync.WaitGroup {
		var wg sync.WaitGroup
		for e := range plan {
			wg.Add(1)
			go func(e int) {
				defer wg.Done()
				for _, p := range plan[e] {
					func() {
						defer func() {
							if x := recover(); x != nil {
								rec.err("emit-panic", x)
							}
						}()
						if s2c {
							ss.Emit(table[p.ev.N].Name, p.vals...)
						} else {
							cs.Emit(table[p.ev.N].Name, p.vals...)
						}
					}()
				}
			}(e)
		}
		return &wg
	}

	// 1. arm: after the sync event the next GET / POST of the client is kept back
	ss.Emit(e2eSyncName)
	if !waitFor(synced, "sync event") {
		return
	}
	if s2c {
		if !waitFor(hold.reqHeld, "poll request to be kept back") {
			return
		}
		// 2. phase 1 queues up in the server's polling transport (no poll request to answer)
		emitAll(plan1).Wait()
		time.Sleep(250 * time.Millisecond)
		// 3. the GET goes out; its response (phase 1) is kept on the wire
		close(hold.sendGate)
		select {
		case <-hold.respHeld:
		case <-time.After(20 * time.Second):
			row.Setup = "no poll response"
			return
		}
	} else {
		// 2'. phase 1: the first POST is kept back (the sender holds the transport lock)
		w1 := emitAll(plan1)
		if !waitFor(hold.reqHeld, "POST to be kept back") {
			return
		}
		w1.Wait()
	}
	// 4. the upgrade is let through
	gatesOnce.Do(func() { close(wsGate.open) })
	swapped := false
	if s2c {
		// A client that swaps while the poll response is still on the wire (code before fix
		// 63b366a) completes the upgrade now: two transports will feed its parser.  The repaired
		// client pauses polling and swaps only after the in-flight poll has returned, i.e. after
		// the release below: then the scenario checks that nothing is lost across the late swap.
		select {
		case <-upgraded:
			swapped = true
			time.Sleep(100 * time.Millisecond) // the server switches when the UPGRADE packet reaches it
		case <-time.After(400 * time.Millisecond):
		}
	} else {
		time.Sleep(150 * time.Millisecond) // probe under way; the swap waits for the POST
	}
	// 5. phase 2 streams (over websocket for s2c) ...
	before := rec.count.Load()
	w2 := emitAll(plan2)
	if s2c {
		deadline := time.Now().Add(10 * time.Second)
		for swapped && rec.count.Load() < before+1 && time.Now().Before(deadline) && rec.disc.Load() == 0 {
			runtime.Gosched() // no sleep: the release must fall inside the stream
		}
		if !swapped {
			time.Sleep(20 * time.Millisecond) // phase 2 is being queued by the server meanwhile
		}
		// 6. ... and the held response lands while it does
		close(hold.recvGate)
	} else {
		time.Sleep(50 * time.Millisecond)
		close(hold.sendGate)
	}
	w2.Wait()
	_ = n1
	rec.lastMove.Store(time.Now().UnixNano())
	for {
		if int(rec.count.Load()) >= expected {
			row.Complete = true
			break
		}
		if time.Since(time.Unix(0, rec.lastMove.Load())) > 25*time.Second {
			break
		}
		if rec.disc.Load() > 0 && time.Since(time.Unix(0, rec.lastMove.Load())) > 2*time.Second {
			break
		}
		time.Sleep(5 * time.Millisecond)
	}
	settle := 400 * time.Millisecond
	for {
		time.Sleep(settle)
		if time.Since(time.Unix(0, rec.lastMove.Load())) >= settle {
			break
		}
	}
	rec.mu.Lock()
	row.Delivered = append(row.Delivered, rec.delivered...)
	for k, v := range rec.errors {
		row.Errors = append(row.Errors, fmt.Sprintf("%dx %s", v, k))
	}
	rec.mu.Unlock()
	sort.Strings(row.Errors)
	row.Disc = int(rec.disc.Load())
	return
}
