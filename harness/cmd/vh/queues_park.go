package main

// queues -queue park (C19): the client socket's park/flush stage in front of the packet queue.
// Built with -tags verif,sio_deadlock: every mutex of the repository is then the harness's
// instrumented go-deadlock copy, whose PreLockHook lets the gate park ANY goroutine right before
// it requests the socket's sendBufferMu - an emitter in _sendBuffers (send-or-park decision) as
// well as the goroutine that handles the CONNECT reply, in emitBuffered (flush).  No line of the
// repository is touched.  A raw engine.io server holds the CONNECT reply back.
// Ops:  E c  emitter c calls socket.Emit("e", next id of its program)  (parks before the mutex)
//       R c  release emitter c (critical section: decide, send or park; Emit returns)
//       C    the raw server sends the CONNECT reply (client: state = Connected; its goroutine
//            parks before the mutex in emitBuffered)
//       F    release that goroutine (flush) and wait until it has left emitBuffered
// Observation per op: frames in sendBuffer, socket.Connected(); at the end: the event ids the
// server received, in order.

import (
	"bytes"
	"fmt"
	"net/http/httptest"
	"runtime"
	"strconv"
	"sync"
	"time"

	deadlock "github.com/sasha-s/go-deadlock"

	sio "github.com/karagenc/socket.io-go"
	eio "github.com/karagenc/socket.io-go/engine.io"
	"github.com/karagenc/socket.io-go/engine.io/parser"
)

type parkUT struct {
	r      *qRunner
	srv    *eio.Server
	ts     *httptest.Server
	m      *sio.Manager
	sock   sio.ClientSocket
	muAddr any

	mu       sync.Mutex
	raw      eio.ServerSocket
	recv     []int
	next     []int // next program index per emitter
	progs    [][]int
	expectG  bool // the next unmanaged goroutine asking for the mutex is the reply's goroutine
	gGid     uint64
	hookSeen bool
	err      string
}

var parkCurrent struct {
	mu sync.Mutex
	u  *parkUT
}

func parkPreLock(ptr interface{}, kind byte) {
	parkCurrent.mu.Lock()
	u := parkCurrent.u
	parkCurrent.mu.Unlock()
	if u == nil || kind != 'L' || ptr != u.muAddr {
		return
	}
	r := u.r
	gid := curGoID()
	r.mu.Lock()
	th := r.byGid[gid]
	u.mu.Lock()
	u.hookSeen = true
	if th == nil && u.expectG {
		// adopt the goroutine that handles the CONNECT reply as the runner's extra thread
		u.expectG = false
		u.gGid = gid
		th = r.closer
		th.gid = gid
		r.byGid[gid] = th
	}
	u.mu.Unlock()
	r.mu.Unlock()
	if th == nil {
		return
	}
	r.ev <- qEvent{th: th, kind: "held"}
	<-th.release
}

func newParkUT(progs [][]int) (*parkUT, error) {
	u := &parkUT{progs: progs, next: make([]int, len(progs))}
	gotConnect := make(chan struct{}, 1)
	u.srv = eio.NewServer(func(s eio.ServerSocket) *eio.Callbacks {
		u.mu.Lock()
		u.raw = s
		u.mu.Unlock()
		return &eio.Callbacks{OnPacket: func(packets ...*parser.Packet) {
			for _, p := range packets {
				if p.Type != parser.PacketTypeMessage || len(p.Data) == 0 {
					continue
				}
				if p.Data[0] == '0' {
					select {
					case gotConnect <- struct{}{}:
					default:
					}
					continue
				}
				// 2["e",<id>]
				if i := bytes.LastIndexByte(p.Data, ','); i >= 0 && p.Data[0] == '2' {
					if id, err := strconv.Atoi(string(bytes.TrimRight(p.Data[i+1:], "]"))); err == nil {
						u.mu.Lock()
						u.recv = append(u.recv, id)
						u.mu.Unlock()
					}
				}
			}
		}}
	}, &eio.ServerConfig{PingInterval: 20 * time.Second, PingTimeout: 20 * time.Second})
	if err := u.srv.Run(); err != nil {
		return nil, err
	}
	u.ts = httptest.NewServer(u.srv)
	cfg := &sio.ManagerConfig{NoReconnection: true}
	cfg.EIO.Transports = []string{"polling"}
	u.m = sio.NewManager(u.ts.URL, cfg)
	u.sock = u.m.Socket("/", nil)
	u.muAddr = sio.VerifSendBufferMu(u.sock)
	parkCurrent.mu.Lock()
	parkCurrent.u = u
	parkCurrent.mu.Unlock()
	u.sock.Connect()
	select {
	case <-gotConnect:
	case <-time.After(10 * time.Second):
		u.close()
		return nil, fmt.Errorf("no CONNECT packet from the client")
	}
	return u, nil
}

func (u *parkUT) close() {
	parkCurrent.mu.Lock()
	parkCurrent.u = nil
	parkCurrent.mu.Unlock()
	u.m.Close()
	u.srv.Close()
	u.ts.Close()
}

func (u *parkUT) parked() int {
	fr, ok := sio.VerifSendBuffer(u.sock, 2*time.Second)
	if !ok {
		return -1
	}
	return len(fr)
}

// qUnderTest
func (u *parkUT) poll(bool) qCons    { return qCons{St: "ret", P: []int{}} }
func (u *parkUT) add([]int)          {}
func (u *parkUT) closeQ()            {}
func (u *parkUT) resetQ()            {}
func (u *parkUT) waitDrainAndClose() {}
func (u *parkUT) lens() (int, int, int, int) {
	c := 0
	if u.sock.Connected() {
		c = 1
	}
	return u.parked(), 0, c, 0
}
func (u *parkUT) point() string { return "-" }

// goroutineInFunc: does goroutine gid still have a frame of a function whose name contains fn?
func goroutineInFunc(gid uint64, fn string) bool {
	n := runtime.Stack(qStackBuf, true)
	head := []byte("goroutine " + strconv.FormatUint(gid, 10) + " [")
	for _, blk := range bytes.Split(qStackBuf[:n], []byte("\n\n")) {
		if bytes.HasPrefix(blk, head) {
			return bytes.Contains(blk, []byte(fn))
		}
	}
	return false
}

func (r *qRunner) applyPark(op qOp) {
	u := r.ut.(*parkUT)
	switch op.K {
	case "E":
		th := r.cons[op.C]
		if th.state != tIdle && th.state != tDone {
			return
		}
		if u.next[op.C] >= len(u.progs[op.C]) {
			return
		}
		id := u.progs[op.C][u.next[op.C]]
		u.next[op.C]++
		th.short = false
		r.spawn(th, func() qEvent {
			u.sock.Emit("e", id)
			return qEvent{th: th, kind: "ret", res: qCons{St: "ret", P: []int{}, Ok: true}}
		})
	case "C":
		th := r.closer
		if th.state != tIdle {
			return
		}
		u.mu.Lock()
		u.expectG = true
		raw := u.raw
		u.mu.Unlock()
		th.state = tRunning
		th.gid = 0
		reply, _ := parser.NewPacket(parser.PacketTypeMessage, false, []byte(`0{"sid":"c19ParkRawPeer000001"}`))
		raw.Send(reply)
	case "F":
		th := r.closer
		if th.state != tHeld {
			return
		}
		th.state = tDone
		th.release <- struct{}{}
		deadline := time.Now().Add(10 * time.Second)
		for goroutineInFunc(u.gGid, "emitBuffered") && time.Now().Before(deadline) {
			runtime.Gosched()
		}
	}
}

// finishPark waits for what the client handed to its connection to reach the server.
func (u *parkUT) finishPark(total int) []int {
	want := total - u.parked()
	deadline := time.Now().Add(3 * time.Second)
	for time.Now().Before(deadline) {
		u.mu.Lock()
		n := len(u.recv)
		u.mu.Unlock()
		if n >= want {
			break
		}
		time.Sleep(200 * time.Microsecond)
	}
	time.Sleep(20 * time.Millisecond) // a duplicate would show up here
	u.mu.Lock()
	defer u.mu.Unlock()
	return append([]int{}, u.recv...)
}

func parkConfigs(thorough bool) []qConfig {
	var cfgs []qConfig
	emitter := func(c, n int) qProg {
		var ops []qOp
		for i := 0; i < n; i++ {
			ops = append(ops, qOp{K: "E", C: c}, qOp{K: "R", C: c})
		}
		return qProg{class: fmt.Sprintf("e%d", n), ops: ops}
	}
	g := qProg{ops: []qOp{{K: "C"}, {K: "F"}}}
	shapes := [][]int{{1}, {2}, {1, 1}}
	if thorough {
		shapes = append(shapes, []int{2, 1}, []int{1, 1, 1})
	}
	for _, sh := range shapes {
		name := "park"
		var progs []qProg
		for c, n := range sh {
			progs = append(progs, emitter(c, n))
			name += fmt.Sprintf("-%d", n)
		}
		cfgs = append(cfgs, qConfig{name: name, queue: "park", nc: len(sh), progs: append(progs, g)})
	}
	return cfgs
}

func init() { deadlock.PreLockHook = parkPreLock }
