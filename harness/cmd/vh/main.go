// vh: one binary, one sub-command per correspondence engine.
// Usage: vh <engine> [-seed N] [-n N] [-tier quick|thorough] [-out file] [engine flags...]
package main

import (
	"fmt"
	"os"
	"sort"
)

type engine func(args []string) error

var engines = map[string]engine{}

func register(name string, e engine) { engines[name] = e }

func main() {
	if len(os.Args) < 2 {
		names := make([]string, 0, len(engines))
		for n := range engines {
			names = append(names, n)
		}
		sort.Strings(names)
		fmt.Fprintln(os.Stderr, "usage: vh <engine> [flags]; engines:", names)
		os.Exit(2)
	}
	e, ok := engines[os.Args[1]]
	if !ok {
		fmt.Fprintln(os.Stderr, "vh: unknown engine", os.Args[1])
		os.Exit(2)
	}
	if err := e(os.Args[2:]); err != nil {
		fmt.Fprintln(os.Stderr, "vh:", os.Args[1]+":", err)
		os.Exit(3)
	}
}
