package main

// heartbeat: live Engine.IO heartbeat rig for C14.
//
// Every scenario runs a REAL eio.Server and a REAL eio client (or a raw websocket peer speaking the
// Engine.IO protocol by hand) on 127.0.0.1:0, joined by a TCP proxy that can, from a chosen moment,
// silently drop ("black-hole") one or both directions without ever closing a connection, or delay a
// direction.  Recorded per scenario (ms since scenario start, monotonic clock): server socket
// creation, client dial return, every ping seen by the client, every pong seen by the server, the
// moment the fault was engaged, the OnClose callbacks of both sides with their reasons, end of
// observation.  The check feeds these histories to the Gallina model (Eio/HeartbeatCheck.v).
//
// Only the public API is used: eio.NewServer/ServerConfig{PingInterval,PingTimeout}, eio.Dial,
// Callbacks{OnPacket,OnClose}.

import (
	"bytes"
	"context"
	"flag"
	"fmt"
	"net"
	"net/http"
	"strings"
	"sync"
	"sync/atomic"
	"time"

	eio "github.com/karagenc/socket.io-go/engine.io"
	"github.com/karagenc/socket.io-go/engine.io/parser"
	"nhooyr.io/websocket"

	"verifharness/vk"
)

func init() { register("heartbeat", heartbeatMain) }

// ---------------------------------------------------------------------------- proxy

const (
	hbFwd  = 0
	hbDrop = 1
)

type hbProxy struct {
	ln       net.Listener
	upstream string
	// index 0: client->server, 1: server->client
	mode  [2]atomic.Int32
	delay [2]atomic.Int64 // ms, applied to chunks read while set
	// sniffers are called with every chunk that is about to be forwarded (dir, data); they may
	// engage the fault (the chunk that triggered it is still forwarded unless `swallow` is returned).
	sniff func(dir int, data []byte) (swallow bool)
	// connSniff: like sniff but per proxied connection; may modify data in place (same length),
	// stall the connection's client->server direction from now on, or cut the connection.
	connSniff func(pc *hbPConn, dir int, data []byte) (swallow bool)

	mu     sync.Mutex
	conns  []net.Conn
	faulty atomic.Bool // once a fault was engaged, closes are never propagated
	closed atomic.Bool
}

func newHbProxy(upstream string) (*hbProxy, error) {
	ln, err := net.Listen("tcp", "127.0.0.1:0")
	if err != nil {
		return nil, err
	}
	p := &hbProxy{ln: ln, upstream: upstream}
	go p.acceptLoop()
	return p, nil
}

func (p *hbProxy) addr() string { return p.ln.Addr().String() }

func (p *hbProxy) blackhole(c2s, s2c bool) {
	p.faulty.Store(true)
	if c2s {
		p.mode[0].Store(hbDrop)
	}
	if s2c {
		p.mode[1].Store(hbDrop)
	}
}

func (p *hbProxy) track(c net.Conn) {
	p.mu.Lock()
	p.conns = append(p.conns, c)
	p.mu.Unlock()
}

func (p *hbProxy) acceptLoop() {
	for {
		c, err := p.ln.Accept()
		if err != nil {
			return
		}
		p.track(c)
		go p.serve(c)
	}
}

// hbPConn: one proxied connection (client side c, upstream side u).
type hbPConn struct {
	c, u     net.Conn
	isWS     atomic.Bool
	stallC2S atomic.Bool
}

func (pc *hbPConn) cut() {
	go func() {
		time.Sleep(20 * time.Millisecond) // let the chunk that triggered the cut go out first
		pc.c.Close()
		pc.u.Close()
	}()
}

type hbChunk struct {
	data []byte
	at   time.Time
}

func (p *hbProxy) serve(c net.Conn) {
	u, err := net.Dial("tcp", p.upstream)
	if err != nil {
		if !p.faulty.Load() {
			c.Close()
		}
		return
	}
	p.track(u)
	pc := &hbPConn{c: c, u: u}
	go p.pump(pc, 0, c, u)
	go p.pump(pc, 1, u, c)
}

func (p *hbProxy) pump(pc *hbPConn, dir int, src, dst net.Conn) {
	q := make(chan hbChunk, 1024)
	go func() { // writer: releases chunks in order, not before their release time
		for ch := range q {
			if d := time.Until(ch.at); d > 0 {
				time.Sleep(d)
			}
			if p.mode[dir].Load() == hbDrop {
				continue
			}
			if _, err := dst.Write(ch.data); err != nil {
				break
			}
		}
		for range q {
		}
		if !p.faulty.Load() {
			dst.Close()
		}
	}()
	buf := make([]byte, 32*1024)
	for {
		n, err := src.Read(buf)
		if n > 0 {
			data := append([]byte(nil), buf[:n]...)
			swallow := false
			if p.sniff != nil && p.mode[dir].Load() == hbFwd {
				swallow = p.sniff(dir, data)
			}
			if dir == 0 && pc.stallC2S.Load() {
				swallow = true
			}
			if p.connSniff != nil && !swallow {
				swallow = p.connSniff(pc, dir, data)
			}
			if !swallow && p.mode[dir].Load() == hbFwd {
				q <- hbChunk{data: data, at: time.Now().Add(time.Duration(p.delay[dir].Load()) * time.Millisecond)}
			}
		}
		if err != nil {
			break
		}
	}
	close(q)
}

func (p *hbProxy) close() {
	p.closed.Store(true)
	p.ln.Close()
	p.mu.Lock()
	for _, c := range p.conns {
		c.Close()
	}
	p.mu.Unlock()
}

// ---------------------------------------------------------------------------- scenarios

type hbScenario struct {
	Name  string `json:"name"`
	Tr    string `json:"tr"`    // polling | websocket | upgrade (polling, then websocket)
	I     int64  `json:"I"`     // ms
	T     int64  `json:"T"`     // ms
	Fault string `json:"fault"` // none | both | c2s | s2c | jitter
	// when the fault is engaged:
	//   after-pong   : 50 ms after the server saw the K-th pong
	//   before-ping  : I-120 ms after the client saw the K-th ping (just before the next ping is due)
	//   mid          : I/2 after the client saw the K-th ping
	//   at-ping      : inside the client's OnPacket for the K-th ping, before the pong is written
	//   upgrade-req  : when the websocket upgrade request passes the proxy (request still forwarded)
	//   upgrade-101  : right after the server's 101 response passed
	//   upgrade-probe: right after the server's "3probe" passed
	//   extra-pong   : raw peer answers the K-th ping twice, then falls silent (no proxy fault)
	When    string `json:"when"`
	K       int    `json:"k"`
	Traffic int64  `json:"traffic"` // >=0: application messages both ways every I ms at this phase offset (ms); -1: none
	Hold    int64  `json:"hold"`    // observation length in ms after the fault (or from start for live)
	Peer    string `json:"peer"`    // client | raw | rawup
	// rawup: the raw peer completes the polling->websocket upgrade Offset ms after the first ping is
	// due (server socket creation + I); negative = before it
	Offset int64 `json:"offset"`
}

type hbClose struct {
	T      int64  `json:"t"`
	Reason string `json:"reason"`
}

type hbRow struct {
	hbScenario
	OpenSrv  int64    `json:"open_srv"`
	OpenCli  int64    `json:"open_cli"`
	Cut      int64    `json:"cut"` // -1: no fault engaged
	CliPings []int64  `json:"cli_pings"`
	SrvPongs []int64  `json:"srv_pongs"`
	SrvMsgs  int      `json:"srv_msgs"`
	CliMsgs  int      `json:"cli_msgs"`
	SrvClose *hbClose `json:"srv_close"`
	CliClose *hbClose `json:"cli_close"`
	End      int64    `json:"end"`
	Upgraded int64    `json:"upgraded"` // client UpgradeDone time or -1
	Err      string   `json:"err"`
	// Slack: largest overshoot (ms) of a 5 ms sleep measured in this process while the scenario ran
	Slack int64 `json:"slack"`
	// env: set when the scenario could not be set up for environmental reasons (retry, then indeterminate)
	Env bool `json:"env"`
}

type hbRig struct {
	sc    hbScenario
	start time.Time
	mu    sync.Mutex
	row   hbRow
	proxy *hbProxy
	cut   sync.Once

	srvSock atomic.Value // eio.ServerSocket
	cli     eio.ClientSocket
}

func (r *hbRig) now() int64 { return time.Since(r.start).Milliseconds() }

func (r *hbRig) engage() {
	r.cut.Do(func() {
		c2s := r.sc.Fault == "both" || r.sc.Fault == "c2s"
		s2c := r.sc.Fault == "both" || r.sc.Fault == "s2c"
		// transport names are read BEFORE the link dies (TransportName takes a lock a blocked
		// sender may hold)
		r.proxy.blackhole(c2s, s2c)
		t := r.now()
		r.mu.Lock()
		r.row.Cut = t
		r.mu.Unlock()
	})
}

func (r *hbRig) engageAfter(d time.Duration) {
	go func() {
		time.Sleep(d)
		r.engage()
	}()
}

func runHbScenario(sc hbScenario) hbRow {
	var slackMax atomic.Int64
	stopSlack := make(chan struct{})
	go func() {
		for {
			select {
			case <-stopSlack:
				return
			default:
			}
			t := time.Now()
			time.Sleep(5 * time.Millisecond)
			over := (time.Since(t) - 5*time.Millisecond).Milliseconds() + 1
			if over > slackMax.Load() {
				slackMax.Store(over)
			}
		}
	}()
	row := runHbScenario1(sc)
	close(stopSlack)
	row.Slack = slackMax.Load()
	if row.CliPings == nil {
		row.CliPings = []int64{}
	}
	if row.SrvPongs == nil {
		row.SrvPongs = []int64{}
	}
	return row
}

func runHbScenario1(sc hbScenario) hbRow {
	r := &hbRig{sc: sc, start: time.Now()}
	r.row.hbScenario = sc
	r.row.Cut = -1
	r.row.Upgraded = -1
	r.row.CliPings = []int64{}
	r.row.SrvPongs = []int64{}
	fail := func(env bool, f string, a ...any) hbRow {
		r.mu.Lock()
		defer r.mu.Unlock()
		r.row.Err = fmt.Sprintf(f, a...)
		r.row.Env = env
		r.row.End = r.now()
		return r.row
	}

	// ---- server
	onSocket := func(s eio.ServerSocket) *eio.Callbacks {
		t := r.now()
		r.srvSock.Store(s)
		r.mu.Lock()
		r.row.OpenSrv = t
		r.mu.Unlock()
		return &eio.Callbacks{
			OnPacket: func(packets ...*parser.Packet) {
				for _, p := range packets {
					switch p.Type {
					case parser.PacketTypePong:
						t := r.now()
						r.mu.Lock()
						r.row.SrvPongs = append(r.row.SrvPongs, t)
						n := len(r.row.SrvPongs)
						r.mu.Unlock()
						if sc.When == "after-pong" && n == sc.K {
							r.engageAfter(50 * time.Millisecond)
						}
					case parser.PacketTypeMessage:
						r.mu.Lock()
						r.row.SrvMsgs++
						r.mu.Unlock()
					}
				}
			},
			OnClose: func(reason eio.Reason, err error) {
				t := r.now()
				r.mu.Lock()
				if r.row.SrvClose == nil {
					r.row.SrvClose = &hbClose{T: t, Reason: string(reason)}
				} else {
					r.row.Err += "server OnClose called twice;"
				}
				r.mu.Unlock()
			},
		}
	}
	srv := eio.NewServer(onSocket, &eio.ServerConfig{
		PingInterval: time.Duration(sc.I) * time.Millisecond,
		PingTimeout:  time.Duration(sc.T) * time.Millisecond,
	})
	if err := srv.Run(); err != nil {
		return fail(false, "server run: %v", err)
	}
	ln, err := net.Listen("tcp", "127.0.0.1:0")
	if err != nil {
		return fail(true, "listen: %v", err)
	}
	mux := http.NewServeMux()
	mux.Handle("/engine.io/", srv)
	hs := &http.Server{Handler: mux}
	go hs.Serve(ln)
	defer func() {
		go srv.Close()
		go hs.Close()
	}()

	proxy, err := newHbProxy(ln.Addr().String())
	if err != nil {
		return fail(true, "proxy: %v", err)
	}
	r.proxy = proxy
	defer proxy.close()

	switch sc.When {
	case "upgrade-req":
		proxy.sniff = func(dir int, data []byte) bool {
			if dir == 0 && bytes.Contains(data, []byte("transport=websocket")) {
				// the request itself is forwarded only if c->s stays open; engage first so that
				// nothing after this chunk passes in the dropped direction(s)
				r.engage()
				return sc.Fault == "both" || sc.Fault == "c2s"
			}
			return false
		}
	case "upgrade-101":
		proxy.sniff = func(dir int, data []byte) bool {
			if dir == 1 && bytes.Contains(data, []byte("101 Switching")) {
				r.engageAfter(0)
			}
			return false
		}
	case "upgrade-probe":
		proxy.sniff = func(dir int, data []byte) bool {
			if dir == 1 && bytes.Contains(data, []byte("probe")) {
				r.engageAfter(0)
			}
			return false
		}
	}
	if strings.HasPrefix(sc.When, "upfail-") {
		// a polling->websocket upgrade whose websocket handshake succeeds but whose probe fails:
		//   upfail-stall     : nothing the client sends on the websocket reaches the server (probe unanswered)
		//   upfail-wrongpong : the server's probe pong arrives with wrong data
		//   upfail-cut       : the websocket connection is cut right after the handshake
		// long-polling is untouched: the connection must live on there, heartbeat included.
		proxy.connSniff = func(pc *hbPConn, dir int, data []byte) bool {
			if dir == 0 && bytes.Contains(data, []byte("transport=websocket")) {
				pc.isWS.Store(true)
				return false
			}
			if !pc.isWS.Load() || dir != 1 {
				return false
			}
			if bytes.Contains(data, []byte("101 Switching")) {
				t := r.now()
				r.mu.Lock()
				r.row.Cut = t
				r.mu.Unlock()
				switch sc.When {
				case "upfail-stall":
					pc.stallC2S.Store(true)
				case "upfail-cut":
					pc.stallC2S.Store(true) // the probe must not get through before the cut
					pc.cut()
				}
			}
			if sc.When == "upfail-wrongpong" {
				if i := bytes.Index(data, []byte("probe")); i >= 0 {
					data[i+4] = '0'
				}
			}
			return false
		}
	}
	if sc.Fault == "jitter" {
		// uplink (client->server) slow from the start; downlink becomes slow after the K-th ping
		proxy.delay[0].Store(sc.T * 8 / 10)
	}

	url := "http://" + proxy.addr() + "/engine.io/"

	if sc.Peer == "raw" {
		return r.runRawPeer(url, fail)
	}
	if sc.Peer == "rawup" {
		return r.runRawUpgradePeer(url, fail)
	}

	// ---- client
	var transports []string
	switch sc.Tr {
	case "polling":
		transports = []string{"polling"}
	case "websocket":
		transports = []string{"websocket"}
	default:
		transports = []string{"polling", "websocket"}
	}
	cb := &eio.Callbacks{
		OnPacket: func(packets ...*parser.Packet) {
			for _, p := range packets {
				switch p.Type {
				case parser.PacketTypePing:
					t := r.now()
					r.mu.Lock()
					r.row.CliPings = append(r.row.CliPings, t)
					n := len(r.row.CliPings)
					r.mu.Unlock()
					if n == sc.K {
						switch sc.When {
						case "at-ping":
							r.engage()
						case "before-ping":
							r.engageAfter(time.Duration(sc.I-120) * time.Millisecond)
						case "mid":
							r.engageAfter(time.Duration(sc.I/2) * time.Millisecond)
						}
						if sc.Fault == "jitter" {
							proxy.delay[1].Store(sc.T * 8 / 10)
							r.mu.Lock()
							r.row.Cut = t
							r.mu.Unlock()
						}
					}
				case parser.PacketTypeMessage:
					r.mu.Lock()
					r.row.CliMsgs++
					r.mu.Unlock()
				}
			}
		},
		OnClose: func(reason eio.Reason, err error) {
			t := r.now()
			r.mu.Lock()
			if r.row.CliClose == nil {
				r.row.CliClose = &hbClose{T: t, Reason: string(reason)}
			} else {
				r.row.Err += "client OnClose called twice;"
			}
			r.mu.Unlock()
		},
	}
	var upgradeTimeout time.Duration
	if strings.HasPrefix(sc.When, "upfail-") {
		upgradeTimeout = 500 * time.Millisecond
	}
	cli, err := eio.Dial(url, cb, &eio.ClientConfig{
		Transports:     transports,
		UpgradeTimeout: upgradeTimeout,
		UpgradeDone: func(name string) {
			t := r.now()
			r.mu.Lock()
			r.row.Upgraded = t
			r.mu.Unlock()
		},
	})
	if err != nil {
		return fail(true, "dial: %v", err)
	}
	r.cli = cli
	r.mu.Lock()
	r.row.OpenCli = r.now()
	r.mu.Unlock()

	// application traffic with a phase offset relative to the connection start
	stopTraffic := make(chan struct{})
	if sc.Traffic >= 0 {
		go func() {
			time.Sleep(time.Duration(sc.Traffic) * time.Millisecond)
			tk := time.NewTicker(time.Duration(sc.I) * time.Millisecond)
			defer tk.Stop()
			for i := 0; ; i++ {
				msg, _ := parser.NewPacket(parser.PacketTypeMessage, false, []byte(fmt.Sprintf("m%d", i)))
				go cli.Send(msg)
				if s, ok := r.srvSock.Load().(eio.ServerSocket); ok {
					msg2, _ := parser.NewPacket(parser.PacketTypeMessage, false, []byte(fmt.Sprintf("s%d", i)))
					go s.Send(msg2)
				}
				select {
				case <-stopTraffic:
					return
				case <-tk.C:
				}
			}
		}()
	}

	// ---- observe
	deadline := time.Duration(sc.Hold) * time.Millisecond
	if sc.Fault == "none" {
		time.Sleep(deadline)
	} else {
		// wait for the fault to be engaged (bounded), then hold
		t0 := time.Now()
		for {
			r.mu.Lock()
			c := r.row.Cut
			r.mu.Unlock()
			if c >= 0 {
				break
			}
			if time.Since(t0) > time.Duration(int64(sc.K+3)*(sc.I+sc.T))*time.Millisecond {
				close(stopTraffic)
				return fail(true, "fault moment never reached")
			}
			time.Sleep(5 * time.Millisecond)
		}
		// stop early once both sides reported a close (plus a grace period to catch double reports)
		t1 := time.Now()
		for time.Since(t1) < deadline {
			r.mu.Lock()
			done := r.row.SrvClose != nil && r.row.CliClose != nil
			r.mu.Unlock()
			if done {
				time.Sleep(100 * time.Millisecond)
				break
			}
			time.Sleep(10 * time.Millisecond)
		}
	}
	close(stopTraffic)
	r.mu.Lock()
	r.row.End = r.now()
	row := r.row
	row.CliPings = append([]int64(nil), r.row.CliPings...)
	row.SrvPongs = append([]int64(nil), r.row.SrvPongs...)
	if r.row.SrvClose != nil {
		c := *r.row.SrvClose
		row.SrvClose = &c
	}
	if r.row.CliClose != nil {
		c := *r.row.CliClose
		row.CliClose = &c
	}
	r.mu.Unlock()
	// tear down outside the observation (closes after End are not part of the row)
	go cli.Close()
	return row
}

// runRawPeer: a hand-written Engine.IO websocket peer that answers pings, answers the K-th ping
// twice, and then never sends anything again while keeping the connection open.
func (r *hbRig) runRawPeer(url string, fail func(bool, string, ...any) hbRow) hbRow {
	sc := r.sc
	wsURL := "ws" + strings.TrimPrefix(url, "http") + "?EIO=4&transport=websocket"
	ctx, cancel := context.WithCancel(context.Background())
	defer cancel()
	conn, _, err := websocket.Dial(ctx, wsURL, nil)
	if err != nil {
		return fail(true, "raw dial: %v", err)
	}
	defer conn.CloseNow()
	r.mu.Lock()
	r.row.OpenCli = r.now()
	r.mu.Unlock()
	silent := false
	go func() {
		for {
			_, data, err := conn.Read(ctx)
			if err != nil {
				t := r.now()
				r.mu.Lock()
				if r.row.CliClose == nil {
					r.row.CliClose = &hbClose{T: t, Reason: "raw: connection ended"}
				}
				r.mu.Unlock()
				return
			}
			if len(data) > 0 && data[0] == '2' {
				t := r.now()
				r.mu.Lock()
				r.row.CliPings = append(r.row.CliPings, t)
				n := len(r.row.CliPings)
				if n == sc.K {
					r.row.Cut = t
				}
				r.mu.Unlock()
				if silent {
					continue
				}
				conn.Write(ctx, websocket.MessageText, []byte("3"))
				if n == sc.K {
					// the unsolicited second pong arrives while the server loop sleeps
					time.Sleep(time.Duration(sc.I/4) * time.Millisecond)
					conn.Write(ctx, websocket.MessageText, []byte("3"))
					silent = true
				}
			}
		}
	}()
	t0 := time.Now()
	for time.Since(t0) < time.Duration(int64(sc.K+1)*(sc.I+sc.T)+sc.Hold)*time.Millisecond {
		r.mu.Lock()
		done := r.row.SrvClose != nil
		r.mu.Unlock()
		if done {
			time.Sleep(50 * time.Millisecond)
			break
		}
		time.Sleep(10 * time.Millisecond)
	}
	r.mu.Lock()
	defer r.mu.Unlock()
	r.row.End = r.now()
	row := r.row
	row.CliPings = append([]int64(nil), r.row.CliPings...)
	row.SrvPongs = append([]int64(nil), r.row.SrvPongs...)
	return row
}

// runRawUpgradePeer: a hand-driven Engine.IO v4 peer that opens a long-polling session, probes a
// websocket, and sends UPGRADE at a chosen moment relative to the server's ping schedule, then
// answers every ping it is sent.  When = "swap-nopoll": no poll request is pending from the
// handshake to the upgrade (a ping issued in that window waits in the polling queue and must be
// carried over to the websocket); "swap-poll": the peer polls (and answers pings by POST) until the
// upgrade moment.
func (r *hbRig) runRawUpgradePeer(url string, fail func(bool, string, ...any) hbRow) hbRow {
	sc := r.sc
	ctx, cancel := context.WithCancel(context.Background())
	defer cancel()
	hc := &http.Client{Timeout: time.Duration(4*(sc.I+sc.T)) * time.Millisecond}
	get := func(q string) (string, error) {
		resp, err := hc.Get(url + "?EIO=4&transport=polling" + q)
		if err != nil {
			return "", err
		}
		defer resp.Body.Close()
		var buf bytes.Buffer
		buf.ReadFrom(resp.Body)
		if resp.StatusCode != 200 {
			return "", fmt.Errorf("status %d", resp.StatusCode)
		}
		return buf.String(), nil
	}
	body, err := get("")
	if err != nil || len(body) < 2 || body[0] != '0' {
		return fail(true, "raw handshake: %v %q", err, body)
	}
	i := strings.Index(body, `"sid":"`)
	if i < 0 {
		return fail(true, "raw handshake: no sid in %q", body)
	}
	sid := body[i+7:]
	sid = sid[:strings.Index(sid, `"`)]
	r.mu.Lock()
	r.row.OpenCli = r.now()
	openSrv := r.row.OpenSrv
	r.mu.Unlock()

	wsURL := "ws" + strings.TrimPrefix(url, "http") + "?EIO=4&transport=websocket&sid=" + sid
	conn, _, err := websocket.Dial(ctx, wsURL, nil)
	if err != nil {
		return fail(true, "raw ws dial: %v", err)
	}
	defer conn.CloseNow()
	if err := conn.Write(ctx, websocket.MessageText, []byte("2probe")); err != nil {
		return fail(true, "raw probe: %v", err)
	}
	if _, msg, err := conn.Read(ctx); err != nil || string(msg) != "3probe" {
		return fail(true, "raw probe answer: %v %q", err, msg)
	}
	var upgraded atomic.Bool
	var wsMu sync.Mutex
	onPing := func() {
		t := r.now()
		r.mu.Lock()
		r.row.CliPings = append(r.row.CliPings, t)
		r.mu.Unlock()
	}
	wsPong := func() {
		wsMu.Lock()
		conn.Write(ctx, websocket.MessageText, []byte("3"))
		wsMu.Unlock()
	}
	go func() { // websocket reader: a live peer answers every ping at once
		for {
			_, data, err := conn.Read(ctx)
			if err != nil {
				t := r.now()
				r.mu.Lock()
				if r.row.CliClose == nil {
					r.row.CliClose = &hbClose{T: t, Reason: "raw: connection ended"}
				}
				r.mu.Unlock()
				return
			}
			if string(data) == "2" {
				onPing()
				wsPong()
			}
		}
	}()
	if sc.When == "swap-poll" {
		go func() {
			for !upgraded.Load() {
				b, err := get("&sid=" + sid)
				if err != nil {
					return
				}
				for _, pkt := range strings.Split(b, "\x1e") {
					if pkt == "2" {
						onPing()
						if upgraded.Load() {
							wsPong()
						} else if resp, err := hc.Post(url+"?EIO=4&transport=polling&sid="+sid, "text/plain", strings.NewReader("3")); err == nil {
							resp.Body.Close()
						}
					}
				}
			}
		}()
	}
	// the upgrade moment, relative to the server's ping schedule
	at := time.Duration(openSrv+sc.I+sc.Offset) * time.Millisecond
	if d := at - time.Since(r.start); d > 0 {
		time.Sleep(d)
	}
	upgraded.Store(true)
	wsMu.Lock()
	err = conn.Write(ctx, websocket.MessageText, []byte("5"))
	wsMu.Unlock()
	t := r.now()
	r.mu.Lock()
	r.row.Cut = t
	r.row.Upgraded = t
	r.mu.Unlock()
	if err != nil {
		return fail(true, "raw upgrade: %v", err)
	}
	t1 := time.Now()
	for time.Since(t1) < time.Duration(sc.Hold)*time.Millisecond {
		r.mu.Lock()
		done := r.row.SrvClose != nil
		r.mu.Unlock()
		if done {
			time.Sleep(50 * time.Millisecond)
			break
		}
		time.Sleep(10 * time.Millisecond)
	}
	r.mu.Lock()
	defer r.mu.Unlock()
	r.row.End = r.now()
	row := r.row
	row.CliPings = append([]int64(nil), r.row.CliPings...)
	row.SrvPongs = append([]int64(nil), r.row.SrvPongs...)
	if r.row.SrvClose != nil {
		c := *r.row.SrvClose
		row.SrvClose = &c
	}
	row.CliClose = nil // the raw peer has no heartbeat of its own
	return row
}

// ---------------------------------------------------------------------------- scenario tables

var hbHoldExtra int64
var hbExact bool
var hbNames string

func hbScenarios(tier string, seed uint64, only string) []hbScenario {
	var scs []hbScenario
	add := func(tr string, i, t int64, fault, when string, k int, traffic int64, peer string) {
		hold := i + t + 1500 // long enough to see a close that is late by more than a second
		if fault == "none" {
			hold = 4*(i+t) + 300
		}
		if fault == "jitter" {
			hold = 2*(i+t) + 1000
		}
		if peer == "" {
			peer = "client"
		}
		if fault != "none" {
			hold += hbHoldExtra
		}
		name := fmt.Sprintf("%s/%s/%s/k%d/I%d/T%d", tr, fault, when, k, i, t)
		if traffic >= 0 {
			name += fmt.Sprintf("/traffic%d", traffic)
		}
		scs = append(scs, hbScenario{Name: name, Tr: tr, I: i, T: t, Fault: fault, When: when, K: k,
			Traffic: traffic, Hold: hold, Peer: peer})
	}
	addSwap := func(i, t int64, when string, offset int64) {
		hold := 3 * (i + t)
		if t > i {
			hold = 2*(i+t) + i
		}
		scs = append(scs, hbScenario{Name: fmt.Sprintf("upgrade/live/%s/off%d/I%d/T%d", when, offset, i, t),
			Tr: "upgrade", I: i, T: t, Fault: "none", When: when, Traffic: -1, Hold: hold, Peer: "rawup", Offset: offset})
	}
	rnd := vk.NewRand(seed)
	if tier == "quick" {
		const I, T = 1000, 1000
		// dead peers
		add("websocket", I, T, "both", "after-pong", 1, -1, "")
		add("websocket", I, T, "c2s", "at-ping", 1, -1, "")
		add("websocket", I, T, "s2c", "before-ping", 1, -1, "")
		add("polling", I, T, "both", "before-ping", 1, -1, "")
		add("polling", I, T, "c2s", "at-ping", 2, -1, "")
		add("polling", I, T, "s2c", "after-pong", 1, int64(rnd.Intn(int(I))), "")
		add("polling", I, T, "both", "mid", 1, -1, "")
		add("upgrade", I, T, "both", "upgrade-req", 0, -1, "")
		add("upgrade", I, T, "both", "upgrade-101", 0, -1, "")
		add("upgrade", I, T, "c2s", "upgrade-probe", 0, -1, "")
		add("websocket", I, T, "both", "mid", 2, int64(rnd.Intn(int(I))), "")
		// live peers, idle and with traffic at phase offsets
		add("websocket", I, T, "none", "-", 0, -1, "")
		add("polling", I, T, "none", "-", 0, -1, "")
		add("upgrade", I, T, "none", "-", 0, -1, "")
		add("websocket", I, T, "none", "-", 0, int64(rnd.Intn(int(I))), "")
		add("polling", I, T, "none", "-", 0, int64(rnd.Intn(int(I))), "")
		// live peers whose upgrade FAILS after the websocket handshake: the connection lives on on long-polling
		add("upgrade", I, T, "none", "upfail-stall", 0, -1, "")
		add("upgrade", I, T, "none", "upfail-wrongpong", 0, -1, "")
		add("upgrade", I, T, "none", "upfail-cut", 0, int64(rnd.Intn(int(I))), "")
		// live peer whose upgrade completes around a ping (swept across the ping instant)
		for _, off := range []int64{-200, -30, 30, 200, 600} {
			addSwap(I, T, "swap-nopoll", off+int64(rnd.Intn(20))-10)
		}
		addSwap(I, 2*T, "swap-nopoll", 500)
		addSwap(I, 2*T, "swap-nopoll", 1400+int64(rnd.Intn(200)))
		addSwap(I, T, "swap-poll", -300)
		addSwap(I, T, "swap-poll", 300)
		// I != T: an interval/timeout mix-up is invisible at I = T
		add("websocket", I, 2*T, "both", "after-pong", 1, -1, "")
		add("polling", I, 2*T, "s2c", "before-ping", 1, -1, "")
		add("websocket", I, 2*T, "extra-pong", "extra-pong", 1, -1, "raw")
		// replay of the model's witnesses
		add("websocket", I, T, "extra-pong", "extra-pong", 1, -1, "raw")
		add("websocket", I, T, "jitter", "jitter", 1, -1, "")
	} else {
		for _, i := range []int64{1000, 2000, 3000} {
			for _, t := range []int64{1000, 2000, 3000} {
				diag := i == t || (i == 1000 && t == 3000) || (i == 3000 && t == 1000)
				for _, tr := range []string{"websocket", "polling"} {
					for _, fault := range []string{"both", "c2s", "s2c"} {
						for _, when := range []string{"after-pong", "before-ping", "mid", "at-ping"} {
							if !diag && when != "before-ping" && when != "at-ping" {
								continue
							}
							traffic := int64(-1)
							if rnd.Intn(3) == 0 {
								traffic = int64(rnd.Intn(int(i)))
							}
							add(tr, i, t, fault, when, 1+rnd.Intn(2), traffic, "")
						}
					}
					add(tr, i, t, "none", "-", 0, -1, "")
					add(tr, i, t, "none", "-", 0, int64(rnd.Intn(int(i))), "")
				}
				for _, fault := range []string{"both", "c2s", "s2c"} {
					for _, when := range []string{"upgrade-req", "upgrade-101", "upgrade-probe"} {
						if !diag && fault != "both" {
							continue
						}
						add("upgrade", i, t, fault, when, 0, -1, "")
					}
				}
				add("upgrade", i, t, "none", "-", 0, int64(rnd.Intn(int(i))), "")
				for _, frac := range []int64{-20, -3, 3, 20, 45, 70} {
					addSwap(i, t, "swap-nopoll", t*frac/100+int64(rnd.Intn(20))-10)
				}
				for _, w := range []string{"upfail-stall", "upfail-wrongpong", "upfail-cut"} {
					add("upgrade", i, t, "none", w, 0, -1, "")
				}
				addSwap(i, t, "swap-poll", -i*3/10)
				addSwap(i, t, "swap-poll", t*3/10)
				if diag {
					add("websocket", i, t, "extra-pong", "extra-pong", 1+rnd.Intn(2), -1, "raw")
					add("websocket", i, t, "jitter", "jitter", 1, -1, "")
				}
			}
		}
	}
	if hbNames != "" {
		want := map[string]bool{}
		for _, n := range strings.Split(hbNames, ",") {
			want[n] = true
		}
		var f []hbScenario
		for _, s := range scs {
			if want[s.Name] {
				f = append(f, s)
			}
		}
		return f
	}
	if only != "" {
		var f []hbScenario
		for _, s := range scs {
			if (hbExact && s.Name == only) || (!hbExact && strings.Contains(s.Name, only)) {
				f = append(f, s)
			}
		}
		scs = f
	}
	return scs
}

func heartbeatMain(args []string) error {
	fs := flag.NewFlagSet("heartbeat", flag.ExitOnError)
	seed := fs.Uint64("seed", 1, "")
	tier := fs.String("tier", "quick", "quick|thorough")
	only := fs.String("only", "", "substring filter on scenario names")
	par := fs.Int("par", 24, "scenarios run concurrently")
	_ = fs.Int("n", 0, "unused")
	_ = fs.Int("attempt", 0, "re-run counter (only makes the output file name distinct)")
	fs.StringVar(&hbNames, "names", "", "comma-separated exact scenario names")
	fs.BoolVar(&hbExact, "exact", false, "-only must match the whole scenario name")
	fs.Int64Var(&hbHoldExtra, "holdextra", 0, "extra observation time (ms) after a fault")
	outp := fs.String("out", "-", "")
	fs.Parse(args)
	out, err := vk.NewOut(*outp)
	if err != nil {
		return err
	}
	defer out.Close()

	scs := hbScenarios(*tier, *seed, *only)
	sem := make(chan struct{}, *par)
	var wg sync.WaitGroup
	for _, sc := range scs {
		wg.Add(1)
		sem <- struct{}{}
		go func(sc hbScenario) {
			defer wg.Done()
			defer func() { <-sem }()
			row := runHbScenario(sc)
			for attempt := 0; row.Env && attempt < 2; attempt++ { // environmental failures only
				row = runHbScenario(sc)
			}
			out.Put(row)
		}(sc)
	}
	wg.Wait()
	return nil
}
