package main

// queues -queue swap (C19): the engine.io server socket's Send racing its transport swap
// (upgradeTo: swap + drain of the old long-polling queue into the new transport).
//
// The REAL serverSocket (verif export) is built on the REAL polling.ServerTransport, wrapped so
// that the Send of chosen packets is held at its first instruction - i.e. after the socket has
// picked the transport, before the packet reaches that transport's poll queue - which stands for
// a sender descheduled at that point.  The new transport records what it is asked to send.
// Ops (same gate scheduler and quiescence detection as the queue suites):
//   N c [hold]  sender c calls socket.Send(packet with id c+1) in its own goroutine; with hold=1
//               the wrapper parks it inside transport.Send while the old transport is current
//   R c         release sender c
//   U           a goroutine calls socket.upgradeTo(new transport)
// Observation per op: every sender idle / held (in transport.Send) / blocked (on the socket's
// lock) / returned; upgrade idle / blocked / done; message ids waiting in the old transport's
// queue; ids sent with the new transport, in order.

import (
	"net/http"
	"strconv"
	"sync"
	"time"

	eio "github.com/karagenc/socket.io-go/engine.io"
	"github.com/karagenc/socket.io-go/engine.io/parser"
	"github.com/karagenc/socket.io-go/engine.io/transport"
	"github.com/karagenc/socket.io-go/engine.io/transport/polling"
)

type swapHeldPolling struct {
	*polling.ServerTransport
	u *swapUT
}

func (t *swapHeldPolling) Send(packets ...*parser.Packet) {
	for _, p := range packets {
		if p.Type == parser.PacketTypeMessage && t.u.isHold(string(p.Data)) {
			t.u.r.holdCurrent()
			break
		}
	}
	t.ServerTransport.Send(packets...)
}

type swapRecording struct {
	mu   sync.Mutex
	sent []*parser.Packet
}

func (t *swapRecording) Name() string { return "websocket" }
func (t *swapRecording) Handshake(*parser.Packet, http.ResponseWriter, *http.Request) (string, error) {
	return "", nil
}
func (t *swapRecording) PostHandshake(*parser.Packet)                 {}
func (t *swapRecording) ServeHTTP(http.ResponseWriter, *http.Request) {}
func (t *swapRecording) QueuedPackets() []*parser.Packet              { return nil }
func (t *swapRecording) Send(packets ...*parser.Packet) {
	t.mu.Lock()
	t.sent = append(t.sent, packets...)
	t.mu.Unlock()
}
func (t *swapRecording) Discard() {}
func (t *swapRecording) Close()   {}

type swapUT struct {
	r    *qRunner
	sock *eio.VerifServerSocket
	old  *swapHeldPolling
	next *swapRecording
	mu   sync.Mutex
	hold map[string]bool
}

func newSwapUT() *swapUT {
	u := &swapUT{hold: map[string]bool{}, next: &swapRecording{}}
	cb := transport.NewCallbacks()
	u.old = &swapHeldPolling{ServerTransport: polling.NewServerTransport(cb, 0, 60*time.Second), u: u}
	u.sock = eio.VerifNewServerSocket("verif", u.old, cb)
	return u
}

func (u *swapUT) isHold(id string) bool {
	u.mu.Lock()
	defer u.mu.Unlock()
	return u.hold[id]
}

func msgIDs(ps []*parser.Packet) []int {
	ids := []int{}
	for _, p := range ps {
		if p.Type != parser.PacketTypeMessage {
			continue // the NOOP that Discard() sends to end a pending poll
		}
		if id, err := strconv.Atoi(string(p.Data)); err == nil {
			ids = append(ids, id)
		}
	}
	return ids
}

func (u *swapUT) view() (oldQueued, newSent []int) {
	u.next.mu.Lock()
	newSent = msgIDs(u.next.sent)
	u.next.mu.Unlock()
	return msgIDs(u.old.VerifQueued()), newSent
}

// qUnderTest (only lens is meaningful here)
func (u *swapUT) poll(bool) qCons    { return qCons{St: "ret", P: []int{}} }
func (u *swapUT) add([]int)          {}
func (u *swapUT) closeQ()            {}
func (u *swapUT) resetQ()            {}
func (u *swapUT) waitDrainAndClose() {}
func (u *swapUT) lens() (int, int, int, int) {
	o, n := u.view()
	return len(o), 0, len(n), 0
}
func (u *swapUT) point() string { return "-" }

// holdCurrent parks the calling goroutine if the runner manages it (reported as "held").
func (r *qRunner) holdCurrent() {
	gid := curGoID()
	r.mu.Lock()
	th := r.byGid[gid]
	r.mu.Unlock()
	if th == nil {
		return
	}
	r.ev <- qEvent{th: th, kind: "held"}
	<-th.release
}

func (r *qRunner) applySwap(op qOp) {
	u := r.ut.(*swapUT)
	switch op.K {
	case "N":
		th := r.cons[op.C]
		if th.state != tIdle {
			return
		}
		id := strconv.Itoa(op.C + 1)
		u.mu.Lock()
		u.hold[id] = op.S == 1
		u.mu.Unlock()
		th.short = false
		r.spawn(th, func() qEvent {
			u.sock.Send(&parser.Packet{Type: parser.PacketTypeMessage, Data: []byte(id)})
			return qEvent{th: th, kind: "ret", res: qCons{St: "ret", P: []int{}, Ok: true}}
		})
	case "U":
		th := r.closer
		if th.state != tIdle {
			return
		}
		r.spawn(th, func() qEvent {
			u.sock.UpgradeTo(u.next, transport.NewCallbacks())
			return qEvent{th: th, kind: "wdone"}
		})
	}
}

// swapConfigs: 1..3 senders, each either plain (N) or held inside transport.Send (N hold, R),
// interleaved in every way with one upgrade (and, as a control, without any).
func swapConfigs(thorough bool) []qConfig {
	var cfgs []qConfig
	sender := func(c int, hold bool) qProg {
		if hold {
			return qProg{class: "h", ops: []qOp{{K: "N", C: c, S: 1}, {K: "R", C: c}}}
		}
		return qProg{class: "n", ops: []qOp{{K: "N", C: c}}}
	}
	up := qProg{ops: []qOp{{K: "U"}}}
	shapes := [][]bool{{true}, {false}, {true, false}, {true, true}, {false, false}, {true, true, false}}
	if thorough {
		shapes = append(shapes, []bool{true, true, true}, []bool{true, false, false})
	}
	for _, sh := range shapes {
		name := ""
		var progs []qProg
		for c, h := range sh {
			progs = append(progs, sender(c, h))
			if h {
				name += "h"
			} else {
				name += "n"
			}
		}
		cfgs = append(cfgs, qConfig{name: name + "-U", queue: "swap", nc: len(sh), progs: append(append([]qProg{}, progs...), up)})
		if len(sh) <= 2 {
			cfgs = append(cfgs, qConfig{name: name, queue: "swap", nc: len(sh), progs: progs})
		}
	}
	return cfgs
}
