package main

// concurrent: engine of property C16 (the public API is safe under arbitrary concurrent use).
//
// One scenario = one real sio.Server (httptest, 127.0.0.1:0) with two namespaces, 1-3 client
// Managers with a socket per namespace, and a seeded, randomly generated concurrent program:
// 2..16 goroutines each issuing a random sequence of public-API operations (server, namespace,
// server socket, broadcast operator, adapter, manager, client socket: emit with and without ack /
// timeout, join / leave, broadcast, handler registration and removal, connect, disconnect, close).
// Every handler the program registers (event, acknowledgement, lifecycle, middleware) reports its
// entry to the lock tracer and then issues operations itself.  GOMAXPROCS is drawn from
// {1,2,4,16}; yields are injected between operations and (traced build) at lock requests.
//
// Built with -tags verif,sio_deadlock all mutexes of the library are the instrumented copy of
// go-deadlock (harness/third_party/go-deadlock): the engine then also outputs every lock site,
// every nested acquisition (held site -> requested site), handler entries made with locks held,
// sampled per-goroutine traces, locks still held after shutdown, and the original detector's
// reports.  A watchdog reports operations that never return.  Built with -race (and without
// sio_deadlock, whose global bookkeeping mutex would hide races) the same programs run under the
// race detector; the driver collects its reports.
//
// Output rows: {"k":"scenario", ...} per scenario and one final {"k":"trace", ...}.

import (
	"flag"
	"fmt"
	"net/http/httptest"
	"runtime"
	"sort"
	"strconv"
	"strings"
	"sync"
	"sync/atomic"
	"time"

	mapset "github.com/deckarep/golang-set/v2"
	sio "github.com/karagenc/socket.io-go"
	"github.com/karagenc/socket.io-go/adapter"
	deadlock "github.com/sasha-s/go-deadlock"

	"verifharness/vk"
)

func init() { register("concurrent", concurrentMain) }

type ccHang struct {
	Op      string  `json:"op"`
	Where   string  `json:"where"`
	Seconds float64 `json:"seconds"`
}

type ccPanic struct {
	Op    string `json:"op"`
	Where string `json:"where"`
	Msg   string `json:"msg"`
}

type ccScenario struct {
	K          string              `json:"k"`
	ID         int                 `json:"id"`
	Seed       uint64              `json:"seed"`
	Procs      int                 `json:"procs"`
	Goroutines int                 `json:"goroutines"`
	Transport  string              `json:"transport"`
	Recovery   bool                `json:"recovery"`
	Reconnect  bool                `json:"reconnect"`
	Clients    int                 `json:"clients"`
	SrvClose   bool                `json:"srv_close"`
	Ops        int                 `json:"ops"`
	HandlerOps int                 `json:"handler_ops"`
	Kinds      map[string]int      `json:"kinds"`
	Handlers   map[string]int      `json:"handlers"`
	Hangs      []ccHang            `json:"hangs"`
	Panics     []ccPanic           `json:"panics"`
	HeldAtEnd  []deadlock.HeldInfo `json:"held_at_end"`
	Stacks     string              `json:"stacks,omitempty"`
	Err        string              `json:"err,omitempty"`
	Millis     int64               `json:"ms"`
}

type ccInflight struct {
	op, where string
	start     time.Time
}

type ccRig struct {
	sc   *ccScenario
	srv  *sio.Server
	ts   *httptest.Server
	nsps []*sio.Namespace

	mu      sync.Mutex // the harness' own state (plain sync: not traced)
	ssocks  []sio.ServerSocket
	mgrs    []*sio.Manager
	csocks  []sio.ClientSocket
	kinds   map[string]int
	hand    map[string]int
	panics  []ccPanic
	infl    map[int64]*ccInflight
	inflSeq int64

	budget  int64 // operations left for handlers (bounds event storms)
	hctr    uint64
	seed    uint64
	closing int32
	srvDown int32
}

var ccEvents = []string{"e0", "e1", "e2", "ping"}
var ccRooms = []sio.Room{"r0", "r1", "r2"}

func (r *ccRig) count(m map[string]int, k string) {
	r.mu.Lock()
	m[k]++
	r.mu.Unlock()
}

// track runs one operation under the watchdog's eyes; a panic of the operation is recorded.
func (r *ccRig) track(op, where string, f func()) {
	r.mu.Lock()
	r.inflSeq++
	id := r.inflSeq
	r.infl[id] = &ccInflight{op, where, time.Now()}
	r.kinds[op]++
	r.mu.Unlock()
	defer func() {
		if p := recover(); p != nil {
			r.mu.Lock()
			if len(r.panics) < 50 {
				r.panics = append(r.panics, ccPanic{op, where, fmt.Sprint(p)})
			}
			r.mu.Unlock()
		}
		r.mu.Lock()
		delete(r.infl, id)
		r.mu.Unlock()
	}()
	f()
}

// enter is called first thing by every handler.
func (r *ccRig) enter(tag string) {
	deadlock.UserEnter(tag)
	r.count(r.hand, tag)
	if atomic.LoadInt32(&r.closing) != 0 {
		return
	}
	n := atomic.AddUint64(&r.hctr, 1)
	rng := vk.NewRand(r.seed ^ (n * 0x9e3779b97f4a7c15))
	if rng.Intn(3) == 0 {
		return
	}
	k := 1 + rng.Intn(2)
	for i := 0; i < k; i++ {
		if atomic.AddInt64(&r.budget, -1) < 0 {
			return
		}
		r.op(rng, "handler:"+tag, true, strings.HasPrefix(tag, "mw:"))
	}
}

func (r *ccRig) anySS(rng *vk.Rand) sio.ServerSocket {
	r.mu.Lock()
	defer r.mu.Unlock()
	if len(r.ssocks) == 0 {
		return nil
	}
	return r.ssocks[rng.Intn(len(r.ssocks))]
}

func (r *ccRig) anyCS(rng *vk.Rand) sio.ClientSocket {
	r.mu.Lock()
	defer r.mu.Unlock()
	return r.csocks[rng.Intn(len(r.csocks))]
}

func (r *ccRig) anyMgr(rng *vk.Rand) *sio.Manager {
	r.mu.Lock()
	defer r.mu.Unlock()
	return r.mgrs[rng.Intn(len(r.mgrs))]
}

// --- handlers (all report their entry) ---------------------------------------------------------

func (r *ccRig) srvEvent(tag string) func(n int) {
	return func(n int) { r.enter("ev:s:" + tag) }
}

func (r *ccRig) srvEventAck(tag string) func(n int, ack func(int)) {
	return func(n int, ack func(int)) {
		r.enter("ev:s:" + tag)
		ack(n + 1)
	}
}

func (r *ccRig) cliEvent(tag string) func(n int) {
	return func(n int) { r.enter("ev:c:" + tag) }
}

func (r *ccRig) cliEventAck(tag string) func(n int, ack func(int)) {
	return func(n int, ack func(int)) {
		r.enter("ev:c:" + tag)
		ack(n + 1)
	}
}

func (r *ccRig) onServerSocket(s sio.ServerSocket) {
	r.enter("life:s:connection")
	r.mu.Lock()
	r.ssocks = append(r.ssocks, s)
	r.mu.Unlock()
	s.OnEvent("e0", r.srvEvent("e0"))
	s.OnEvent("e1", r.srvEvent("e1"))
	s.OnEvent("ping", r.srvEventAck("ping"))
	s.OnDisconnecting(func(reason sio.Reason) { r.enter("life:s:disconnecting") })
	s.OnDisconnect(func(reason sio.Reason) { r.enter("life:s:disconnect") })
	s.OnError(func(err error) { r.enter("life:s:error") })
}

func (r *ccRig) wireClientSocket(c sio.ClientSocket) {
	c.OnEvent("e0", r.cliEvent("e0"))
	c.OnEvent("e1", r.cliEvent("e1"))
	c.OnEvent("ping", r.cliEventAck("ping"))
	c.OnConnect(func() { r.enter("life:c:connect") })
	c.OnConnectError(func(err any) { r.enter("life:c:connect_error") })
	c.OnDisconnect(func(reason sio.Reason) { r.enter("life:c:disconnect") })
}

// --- one random operation ----------------------------------------------------------------------

// inMw: the operation is issued from inside a middleware; registering a middleware from there is
// the probe of -mwreentry (a known finding) and is left out of the ordinary programs.
func (r *ccRig) op(rng *vk.Rand, where string, inHandler, inMw bool) {
	ev := ccEvents[rng.Intn(len(ccEvents))]
	room := ccRooms[rng.Intn(len(ccRooms))]
	nsp := r.nsps[rng.Intn(len(r.nsps))]
	x := rng.Intn(100)
	ss := r.anySS(rng)
	cs := r.anyCS(rng)
	m := r.anyMgr(rng)
	ackS := func(n int) { r.enter("ack:s") }
	ackC := func(n int) { r.enter("ack:c") }
	ackST := func(err error, n int) { r.enter("ack:s:timeout") }
	ackCT := func(err error, n int) { r.enter("ack:c:timeout") }
	switch k := rng.Intn(64); {
	// ---- client socket
	case k < 6:
		r.track("c.Emit", where, func() { cs.Emit(ev, x) })
	case k < 9:
		r.track("c.Emit+ack", where, func() { cs.Emit("ping", x, ackC) })
	case k < 11:
		r.track("c.Timeout.Emit+ack", where, func() {
			cs.Timeout(time.Duration(1+rng.Intn(40))*time.Millisecond).Emit("ping", x, ackCT)
		})
	case k < 12:
		r.track("c.Volatile.Emit", where, func() { cs.Volatile().Emit(ev, x) })
	case k < 14:
		r.track("c.OnEvent", where, func() { cs.OnEvent(ev, r.cliEvent(ev+"+")) })
	case k < 15:
		r.track("c.OnceEvent", where, func() { cs.OnceEvent(ev, r.cliEvent(ev+"+once")) })
	case k < 16:
		r.track("c.OffEvent", where, func() { cs.OffEvent("e2") })
	case k < 17:
		r.track("c.OnConnect/OnDisconnect", where, func() {
			cs.OnceConnect(func() { r.enter("life:c:connect+") })
			cs.OnceDisconnect(func(reason sio.Reason) { r.enter("life:c:disconnect+") })
		})
	case k < 18:
		r.track("c.OffConnect/OffDisconnect", where, func() { cs.OffConnect(); cs.OffDisconnect(); cs.OffConnectError() })
	case k < 20:
		r.track("c.getters", where, func() { cs.Connected(); cs.ID(); cs.Active(); cs.Recovered(); cs.Auth() })
	case k < 21:
		// (with connection state recovery a non-nil auth value makes sendConnectPacket panic on an
		// internal goroutine - structs.New(&authData) "not struct" - which is not this property)
		if !r.sc.Recovery {
			r.track("c.SetAuth", where, func() { cs.SetAuth(&struct{ K int }{x}) })
		}
	case k < 23:
		r.track("c.Disconnect", where, func() { cs.Disconnect() })
	case k < 26:
		r.track("c.Connect", where, func() { cs.Connect() })
	// ---- manager
	case k < 27:
		r.track("m.Socket", where, func() {
			c := m.Socket([]string{"/", "/a"}[rng.Intn(2)], nil)
			c.Connected()
		})
	case k < 28:
		r.track("m.On*", where, func() {
			m.OnceOpen(func() { r.enter("life:m:open") })
			m.OnceClose(func(reason sio.Reason, err error) { r.enter("life:m:close") })
			m.OnceError(func(err error) { r.enter("life:m:error") })
			m.OnceReconnect(func(a uint32) { r.enter("life:m:reconnect") })
			m.OncePing(func() { r.enter("life:m:ping") })
		})
	case k < 29:
		r.track("m.Off*", where, func() { m.OffOpen(); m.OffClose(); m.OffError(); m.OffReconnect(); m.OffPing() })
	case k < 30:
		if rng.Intn(3) == 0 {
			r.track("m.Close", where, func() { m.Close() })
		} else {
			r.track("m.Open", where, func() { m.Open() })
		}
	// ---- server socket
	case k < 35:
		if ss != nil {
			r.track("s.Emit", where, func() { ss.Emit(ev, x) })
		}
	case k < 37:
		if ss != nil {
			r.track("s.Emit+ack", where, func() { ss.Emit("ping", x, ackS) })
		}
	case k < 39:
		if ss != nil {
			r.track("s.Timeout.Emit+ack", where, func() {
				ss.Timeout(time.Duration(1+rng.Intn(40))*time.Millisecond).Emit("ping", x, ackST)
			})
		}
	case k < 42:
		if ss != nil {
			r.track("s.Join", where, func() { ss.Join(room, ccRooms[rng.Intn(len(ccRooms))]) })
		}
	case k < 44:
		if ss != nil {
			r.track("s.Leave", where, func() { ss.Leave(room) })
		}
	case k < 45:
		if ss != nil {
			r.track("s.Rooms/getters", where, func() { ss.Rooms(); ss.Connected(); ss.ID(); ss.Namespace(); ss.Server() })
		}
	case k < 47:
		if ss != nil {
			r.track("s.Broadcast.Emit", where, func() { ss.Broadcast().Emit(ev, x) })
		}
	case k < 48:
		if ss != nil {
			r.track("s.To.Emit", where, func() { ss.To(room).Except(ccRooms[0]).Emit(ev, x) })
		}
	case k < 50:
		if ss != nil {
			r.track("s.OnEvent/OnceEvent", where, func() {
				ss.OnEvent(ev, r.srvEvent(ev+"+"))
				ss.OnceEvent("e2", r.srvEvent("e2+once"))
			})
		}
	case k < 51:
		if ss != nil {
			r.track("s.OffEvent", where, func() { ss.OffEvent("e2") })
		}
	case k < 52:
		if ss != nil {
			r.track("s.On/Off lifecycle", where, func() {
				ss.OnceDisconnect(func(reason sio.Reason) { r.enter("life:s:disconnect+") })
				ss.OnceDisconnecting(func(reason sio.Reason) { r.enter("life:s:disconnecting+") })
				ss.OnceError(func(err error) { r.enter("life:s:error+") })
				if x < 20 {
					ss.OffError()
				}
			})
		}
	case k < 53:
		if ss != nil && !inMw {
			r.track("s.Use", where, func() {
				ss.Use(func(eventName string, v ...any) error { r.enter("mw:socket"); return nil })
			})
		}
	case k < 54:
		if ss != nil {
			r.track("s.Disconnect", where, func() { ss.Disconnect(x < 30) })
		}
	// ---- namespace / server / broadcast operator / adapter
	case k < 56:
		r.track("n.Emit", where, func() { nsp.Emit(ev, x) })
	case k < 57:
		r.track("n.To.Emit", where, func() { nsp.To(room).Emit(ev, x); r.srv.To(room).Emit(ev, x); r.srv.Emit(ev, x) })
	case k < 58:
		r.track("n.SocketsJoin/Leave", where, func() {
			if x < 50 {
				nsp.SocketsJoin(room)
				nsp.In(room).SocketsLeave(ccRooms[0])
			} else {
				nsp.SocketsLeave(room)
				r.srv.SocketsJoin(room)
			}
		})
	case k < 59:
		r.track("n.Sockets/FetchSockets", where, func() {
			nsp.Sockets()
			for _, s := range nsp.FetchSockets() {
				s.ID()
			}
			nsp.To(room).FetchSockets()
			r.srv.Sockets()
		})
	case k < 60:
		r.track("n.OnEvent/OnConnection", where, func() {
			nsp.OnceEvent(ev, r.srvEvent("nsp:"+ev))
			nsp.OnceConnection(func(s sio.ServerSocket) { r.enter("life:s:connection+") })
			r.srv.OnceAnyConnection(func(n string, s sio.ServerSocket) { r.enter("life:s:anyconnection") })
			if x < 25 {
				nsp.OffEvent("e2")
			}
		})
	case k < 61:
		r.track("adapter.*", where, func() {
			a := nsp.Adapter()
			a.Sockets(mapset.NewSet[adapter.Room](room))
			if ss != nil {
				a.SocketRooms(ss.ID())
				a.AddAll(ss.ID(), []adapter.Room{room})
				a.Delete(ss.ID(), room)
			}
			a.FetchSockets(adapter.NewBroadcastOptions())
			a.ServerCount()
		})
	case k < 62:
		r.track("srv.Of", where, func() {
			n2 := r.srv.Of("/dyn" + strconv.Itoa(x%3))
			n2.OnceConnection(func(s sio.ServerSocket) { r.enter("life:s:connection:dyn") })
			n2.Emit(ev, x)
		})
	case k < 63:
		r.track("n.DisconnectSockets", where, func() { nsp.To(room).DisconnectSockets(false) })
	default:
		if inHandler && !inMw {
			r.track("n.Use(from handler)", where, func() {
				// registering a middleware is done from plain goroutines and from handlers, but
				// not from inside a middleware (see op "mw" below for that)
				nsp.Use(func(s sio.ServerSocket, h *sio.Handshake) any { r.enter("mw:nsp+"); return nil })
			})
		} else {
			r.track("s.DisconnectSockets", where, func() { r.srv.In(room).DisconnectSockets(false) })
		}
	}
}

// --- scenario ----------------------------------------------------------------------------------

func ccStacks() string {
	buf := make([]byte, 1<<20)
	n := runtime.Stack(buf, true)
	var keep []string
	for _, g := range strings.Split(string(buf[:n]), "\n\n") {
		if strings.Contains(g, "socket.io-go") && !strings.Contains(g, "ccStacks") {
			keep = append(keep, g)
		}
	}
	s := strings.Join(keep, "\n\n")
	if len(s) > 60000 {
		s = s[:60000]
	}
	return s
}

func ccRun(id int, rng *vk.Rand, opTimeout time.Duration, mwReentry bool) *ccScenario {
	t0 := time.Now()
	sc := &ccScenario{K: "scenario", ID: id, Seed: rng.U64(), Kinds: map[string]int{}, Handlers: map[string]int{}}
	sc.Procs = []int{1, 2, 4, 16}[rng.Intn(4)]
	sc.Goroutines = 2 + rng.Intn(15)
	sc.Transport = []string{"polling", "websocket"}[rng.Intn(2)]
	sc.Recovery = rng.Intn(3) == 0
	sc.Reconnect = rng.Intn(3) == 0
	sc.Clients = 1 + rng.Intn(3)
	sc.SrvClose = rng.Intn(2) == 0
	prev := runtime.GOMAXPROCS(sc.Procs)
	defer runtime.GOMAXPROCS(prev)

	r := &ccRig{sc: sc, kinds: map[string]int{}, hand: map[string]int{}, infl: map[int64]*ccInflight{}, seed: sc.Seed}
	r.closing = 1 // handlers stay passive until the set-up is complete
	opsPer := 8 + rng.Intn(10)
	r.budget = int64(sc.Goroutines * opsPer)

	cfg := &sio.ServerConfig{}
	cfg.EIO.PingInterval = 1 * time.Second
	cfg.EIO.PingTimeout = 2 * time.Second
	cfg.ServerConnectionStateRecovery.Enabled = sc.Recovery
	r.srv = sio.NewServer(cfg)
	for _, name := range []string{"/", "/a"} {
		n := r.srv.Of(name)
		r.nsps = append(r.nsps, n)
		n.OnConnection(r.onServerSocket)
		n.Use(func(s sio.ServerSocket, h *sio.Handshake) any {
			r.enter("mw:nsp")
			if mwReentry {
				// a middleware that registers another middleware
				done := make(chan struct{})
				go func() {
					defer close(done)
					r.track("n.Use(from middleware)", "handler:mw:nsp", func() {
						n.Use(func(s sio.ServerSocket, h *sio.Handshake) any { return nil })
					})
				}()
				<-done
			}
			return nil
		})
	}
	if err := r.srv.Run(); err != nil {
		sc.Err = "run: " + err.Error()
		return sc
	}
	r.ts = httptest.NewServer(r.srv)

	for i := 0; i < sc.Clients; i++ {
		mc := &sio.ManagerConfig{NoReconnection: !sc.Reconnect, ReconnectionAttempts: 3}
		d1, d2 := 5*time.Millisecond, 20*time.Millisecond
		mc.ReconnectionDelay, mc.ReconnectionDelayMax = &d1, &d2
		mc.EIO.Transports = []string{sc.Transport}
		m := sio.NewManager(r.ts.URL, mc)
		r.mgrs = append(r.mgrs, m)
		for _, name := range []string{"/", "/a"} {
			c := m.Socket(name, nil)
			r.wireClientSocket(c)
			r.csocks = append(r.csocks, c)
			c.Connect()
		}
	}
	setupEnd := time.Now().Add(5 * time.Second)
	for {
		got := 0
		for _, c := range r.csocks {
			if c.Connected() {
				got++
			}
		}
		if got == len(r.csocks) {
			break
		}
		if time.Now().After(setupEnd) {
			sc.Err = fmt.Sprintf("setup: only %d of %d sockets connected", got, len(r.csocks))
			break
		}
		time.Sleep(2 * time.Millisecond)
	}
	atomic.StoreInt32(&r.closing, 0)

	// the concurrent program
	var wg sync.WaitGroup
	closer := -1
	if sc.SrvClose {
		closer = rng.Intn(sc.Goroutines)
	}
	for g := 0; g < sc.Goroutines; g++ {
		grng := rng.Fork()
		wg.Add(1)
		go func(g int) {
			defer wg.Done()
			where := "g" + strconv.Itoa(g)
			for i := 0; i < opsPer; i++ {
				r.op(grng, where, false, false)
				switch grng.Intn(4) {
				case 0:
					runtime.Gosched()
				case 1:
					time.Sleep(time.Duration(grng.Intn(300)) * time.Microsecond)
				}
				if g == closer && i == opsPer*2/3 {
					r.track("srv.Close", where, func() {
						atomic.StoreInt32(&r.srvDown, 1)
						r.srv.Close()
					})
				}
			}
		}(g)
	}
	done := make(chan struct{})
	go func() { wg.Wait(); close(done) }()
	hung := false
	select {
	case <-done:
	case <-time.After(opTimeout):
		hung = true
	}
	// operations issued by handlers keep arriving for a moment: wait until nothing is in flight
	quiet := func() bool {
		r.mu.Lock()
		defer r.mu.Unlock()
		return len(r.infl) == 0
	}
	if !hung {
		time.Sleep(60 * time.Millisecond)
		atomic.StoreInt32(&r.closing, 1)
		end := time.Now().Add(opTimeout)
		for !quiet() && time.Now().Before(end) {
			time.Sleep(10 * time.Millisecond)
		}
		hung = !quiet()
	}
	atomic.StoreInt32(&r.closing, 1)
	if hung {
		r.mu.Lock()
		for _, f := range r.infl {
			sc.Hangs = append(sc.Hangs, ccHang{f.op, f.where, time.Since(f.start).Seconds()})
		}
		r.mu.Unlock()
		sort.Slice(sc.Hangs, func(i, j int) bool { return sc.Hangs[i].Seconds > sc.Hangs[j].Seconds })
		sc.Stacks = ccStacks()
	}

	// shutdown (also part of the property: close from the outside while handlers may still run)
	if !hung {
		fin := make(chan struct{})
		go func() {
			defer close(fin)
			for _, m := range r.mgrs {
				m := m
				r.track("m.Close(final)", "main", func() { m.Close() })
			}
			r.track("srv.Close(final)", "main", func() { r.srv.Close() })
		}()
		select {
		case <-fin:
		case <-time.After(opTimeout):
			r.mu.Lock()
			for _, f := range r.infl {
				sc.Hangs = append(sc.Hangs, ccHang{f.op, f.where, time.Since(f.start).Seconds()})
			}
			r.mu.Unlock()
			sc.Stacks = ccStacks()
			hung = true
		}
	}
	r.ts.CloseClientConnections()
	tsDone := make(chan struct{})
	go func() { r.ts.Close(); close(tsDone) }()
	select {
	case <-tsDone:
	case <-time.After(3 * time.Second):
	}
	// quiescence: no library mutex may still be held (a mutex left held by a finished / panicked
	// operation stays in this list for good)
	if !hung {
		var held []deadlock.HeldInfo
		for i := 0; i < 100; i++ {
			held = deadlock.AllHeld()
			stable := true
			for _, h := range held {
				// reconnect back-off holds connectMu while it sleeps; pollers hold nothing
				if !strings.Contains(h.Site, "client_manager_conn.go") {
					stable = false
				}
			}
			if len(held) == 0 || (stable && i > 50) {
				break
			}
			time.Sleep(20 * time.Millisecond)
		}
		sc.HeldAtEnd = held
	}
	// late handlers (ack timeouts) may still be counting: the scenario gets copies
	r.mu.Lock()
	sc.Panics = append([]ccPanic(nil), r.panics...)
	for k, n := range r.kinds {
		sc.Kinds[k] = n
		sc.Ops += n
	}
	for k, n := range r.hand {
		sc.Handlers[k] = n
	}
	r.mu.Unlock()
	sc.HandlerOps = int(int64(sc.Goroutines*opsPer) - atomic.LoadInt64(&r.budget))
	sc.Millis = time.Since(t0).Milliseconds()
	return sc
}

func concurrentMain(args []string) error {
	fs := flag.NewFlagSet("concurrent", flag.ContinueOnError)
	seed := fs.Uint64("seed", 1, "seed")
	n := fs.Int("n", 10, "scenarios")
	outp := fs.String("out", "-", "output")
	opTimeout := fs.Duration("optimeout", 20*time.Second, "an operation that has not returned after this long is a hang")
	traces := fs.Int("traces", 300, "goroutine traces to output")
	mw := fs.Bool("mwreentry", false, "namespace middlewares register a middleware themselves (known finding probe)")
	yield := fs.Int("yield", 7, "inject a scheduler yield at every n-th lock request (0 = off)")
	budget := fs.Duration("budget", 0, "stop starting scenarios after this much time (0 = none)")
	if err := fs.Parse(args); err != nil {
		return err
	}
	out, err := vk.NewOut(*outp)
	if err != nil {
		return err
	}
	defer out.Close()
	deadlock.Opts.DeadlockTimeout = 10 * time.Second
	deadlock.YieldEvery = *yield
	deadlock.TraceStart()
	rng := vk.NewRand(*seed)
	t0 := time.Now()
	ran := 0
	for i := 0; i < *n; i++ {
		if *budget > 0 && time.Since(t0) > *budget {
			break
		}
		sc := ccRun(i, rng.Fork(), *opTimeout, *mw)
		out.Put(sc)
		ran++
		if len(sc.Hangs) > 0 {
			break // the process is wedged: report what we have
		}
	}
	res := deadlock.TraceDump(*traces)
	nrep, text := deadlock.Reports()
	if len(text) > 40000 {
		text = text[:40000]
	}
	out.Put(map[string]any{"k": "trace", "trace": res, "reports": nrep, "report_text": text, "scenarios": ran,
		"traced": deadlock.Traced()})
	return nil
}
