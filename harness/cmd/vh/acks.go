package main

// acks: live rigs for property C03 (acknowledgements).  Real sockets on 127.0.0.1:0 only.
//
//   -mode purge   real sio client that is NOT connected + raw Engine.IO server peer speaking the
//                 Socket.IO wire protocol by hand.  Per layout of <=3 emitted packets (kind T: ack
//                 with a short timeout, K: ack with a long timeout, N: no ack; 0..3 akAttachments):
//                 what the callbacks got, what is left in sendBuffer after the timeouts (verif
//                 inspection), whether a later Emit still returns (mutex not stuck), which frames
//                 reach the peer after Connect, in wire order, and what the K callbacks get then.
//   -mode race    real sio server + real sio client, both directions, reply delay relative to the
//                 timeout in {none, early, boundary, late, never}, 0..3 akAttachments, text/binary
//                 reply, emitter connected / not yet connected / cut mid-flight, 1 or many acks
//                 outstanding, peer calling the ack function once or twice.
//   -mode forced  as race, but the timer goroutine is parked at the verif yield point after its
//                 sleep, and timer and reply are released in a chosen order (reply-first,
//                 timer-first, both at once).
//   -mode raw     raw peer (server or client side) that answers an event with 0..3 ACK packets for
//                 the same id (duplicates) and with ACKs for ids nobody waits for.
//
// One JSON line per emitted packet that has an ack callback (and per layout for purge).

import (
	"encoding/json"
	"flag"
	"fmt"
	"net/http/httptest"
	"sort"
	"strconv"
	"strings"
	"sync"
	"sync/atomic"
	"time"

	sio "github.com/karagenc/socket.io-go"
	eio "github.com/karagenc/socket.io-go/engine.io"
	"github.com/karagenc/socket.io-go/engine.io/parser"

	"verifharness/vk"
)

func init() { register("acks", acksMain) }

// ---------------------------------------------------------------- invocation records

type akAckInv struct {
	Timeout bool   `json:"to"`
	Code    int    `json:"code"`
	Bin     int    `json:"bin"` // length of the Binary reply argument, -1 when the callback has none
	Other   string `json:"other,omitempty"`
	AtMs    int64  `json:"at"` // ms since the Emit call
}

type akAckRec struct {
	mu    sync.Mutex
	t0    time.Time
	invs  []akAckInv
	poke  chan struct{}
	hasTo bool
	bin   bool
	hold  chan struct{} // when set: the FIRST invocation blocks inside the callback until it is closed
}

func akNewAckRec(hasTimeout, bin bool) *akAckRec {
	return &akAckRec{poke: make(chan struct{}, 64), hasTo: hasTimeout, bin: bin}
}

func (r *akAckRec) add(err error, n int, binLen int) {
	r.mu.Lock()
	iv := akAckInv{Code: n, Bin: binLen, AtMs: time.Since(r.t0).Milliseconds()}
	if err != nil {
		if err == sio.ErrAckTimeout {
			iv.Timeout = true
		} else {
			iv.Other = err.Error()
		}
	}
	r.invs = append(r.invs, iv)
	first := len(r.invs) == 1
	hold := r.hold
	r.mu.Unlock()
	select {
	case r.poke <- struct{}{}:
	default:
	}
	if first && hold != nil {
		// a slow user callback: it is still running while the timer fires / further ACK packets arrive
		select {
		case <-hold:
		case <-time.After(20 * time.Second):
		}
	}
}

// callback returns the function handed to Emit.
func (r *akAckRec) callback() any {
	switch {
	case r.hasTo && r.bin:
		return func(err error, n int, b sio.Binary) { r.add(err, n, len(b)) }
	case r.hasTo:
		return func(err error, n int) { r.add(err, n, -1) }
	case r.bin:
		return func(n int, b sio.Binary) { r.add(nil, n, len(b)) }
	default:
		return func(n int) { r.add(nil, n, -1) }
	}
}

func (r *akAckRec) count() int {
	r.mu.Lock()
	defer r.mu.Unlock()
	return len(r.invs)
}

func (r *akAckRec) snapshot() []akAckInv {
	r.mu.Lock()
	defer r.mu.Unlock()
	return append([]akAckInv{}, r.invs...)
}

// waitCount waits until at least n invocations were recorded or d elapsed.
func (r *akAckRec) waitCount(n int, d time.Duration) bool {
	deadline := time.After(d)
	for {
		if r.count() >= n {
			return true
		}
		select {
		case <-r.poke:
		case <-time.After(5 * time.Millisecond):
		case <-deadline:
			return r.count() >= n
		}
	}
}

func akAttachments(pk, natt int) []any {
	v := make([]any, natt)
	for j := 0; j < natt; j++ {
		v[j] = sio.Binary([]byte{byte(pk), byte(j + 1), 0xC3})
	}
	return v
}

// ---------------------------------------------------------------- raw Engine.IO server peer

type akRawFrame struct {
	Bin  bool
	Data []byte
}

type akRawServer struct {
	srv *eio.Server
	ts  *httptest.Server

	mu       sync.Mutex
	frames   []akRawFrame
	sock     eio.ServerSocket
	onEvent  func(rs *akRawServer, id int, hasID bool, seq int, name string) // called per complete event packet
	pending  *akRawEvent                                                     // event whose akAttachments are still arriving
	poke     chan struct{}
	connects int
	acks     [][2]int // ACK packets received: id, first argument
}

type akRawEvent struct {
	id    int
	hasID bool
	seq   int
	name  string
	left  int
}

func akNewRawServer(onEvent func(rs *akRawServer, id int, hasID bool, seq int, name string)) (*akRawServer, error) {
	rs := &akRawServer{onEvent: onEvent, poke: make(chan struct{}, 256)}
	rs.srv = eio.NewServer(func(sock eio.ServerSocket) *eio.Callbacks {
		rs.mu.Lock()
		rs.sock = sock
		rs.mu.Unlock()
		return &eio.Callbacks{OnPacket: func(packets ...*parser.Packet) {
			for _, p := range packets {
				if p.Type == parser.PacketTypeMessage {
					rs.onMessage(sock, p)
				}
			}
		}}
	}, &eio.ServerConfig{PingInterval: 20 * time.Second, PingTimeout: 20 * time.Second})
	if err := rs.srv.Run(); err != nil {
		return nil, err
	}
	rs.ts = httptest.NewServer(rs.srv)
	return rs, nil
}

func (rs *akRawServer) close() {
	rs.srv.Close()
	rs.ts.Close()
}

func akSendText(sock eio.Socket, s string) {
	p, err := parser.NewPacket(parser.PacketTypeMessage, false, []byte(s))
	if err == nil {
		sock.Send(p)
	}
}

func akSendBin(sock eio.Socket, b []byte) {
	p, err := parser.NewPacket(parser.PacketTypeMessage, true, b)
	if err == nil {
		sock.Send(p)
	}
}

// akSendAck writes an ACK packet for id with one int argument (and optionally one attachment).
func akSendAck(sock eio.Socket, id int, code int, bin bool) {
	if !bin {
		akSendText(sock, fmt.Sprintf("3%d[%d]", id, code))
		return
	}
	akSendText(sock, fmt.Sprintf("61-%d[%d,{\"_placeholder\":true,\"num\":0}]", id, code))
	akSendBin(sock, []byte{0xAA, 0xBB, 0xCC, 0xDD, 0xEE})
}

// akParseSioText parses "2<id>[...]" / "5<n>-<id>[...]" (namespace "/").
func akParseSioText(s string) (typ byte, natt int, id int, hasID bool, arr []any, ok bool) {
	if len(s) == 0 {
		return
	}
	typ = s[0]
	rest := s[1:]
	if typ == '5' || typ == '6' {
		i := strings.IndexByte(rest, '-')
		if i < 0 {
			return
		}
		n, err := strconv.Atoi(rest[:i])
		if err != nil {
			return
		}
		natt = n
		rest = rest[i+1:]
	}
	j := 0
	for j < len(rest) && rest[j] >= '0' && rest[j] <= '9' {
		j++
	}
	if j > 0 {
		id, _ = strconv.Atoi(rest[:j])
		hasID = true
	}
	rest = rest[j:]
	if len(rest) > 0 {
		if json.Unmarshal([]byte(rest), &arr) != nil {
			return
		}
	}
	ok = true
	return
}

func (rs *akRawServer) onMessage(sock eio.ServerSocket, p *parser.Packet) {
	if !p.IsBinary && len(p.Data) > 0 && p.Data[0] == '0' {
		rs.mu.Lock()
		rs.connects++
		rs.mu.Unlock()
		akSendText(sock, `0{"sid":"rawpeer`+strconv.Itoa(rs.connects)+`"}`)
		return
	}
	rs.mu.Lock()
	rs.frames = append(rs.frames, akRawFrame{Bin: p.IsBinary, Data: append([]byte(nil), p.Data...)})
	var done *akRawEvent
	if p.IsBinary {
		if rs.pending != nil {
			rs.pending.left--
			if rs.pending.left == 0 {
				done = rs.pending
				rs.pending = nil
			}
		}
	} else {
		typ, natt, id, hasID, arr, ok := akParseSioText(string(p.Data))
		if ok && (typ == '3' || typ == '6') && hasID {
			code := -1
			if len(arr) >= 1 {
				if f, isNum := arr[0].(float64); isNum {
					code = int(f)
				}
			}
			rs.acks = append(rs.acks, [2]int{id, code})
		}
		if ok && (typ == '2' || typ == '5') && len(arr) >= 1 {
			ev := &akRawEvent{id: id, hasID: hasID, left: natt}
			ev.name, _ = arr[0].(string)
			if len(arr) >= 2 {
				if f, isNum := arr[1].(float64); isNum {
					ev.seq = int(f)
				}
			}
			if natt == 0 {
				done = ev
			} else {
				rs.pending = ev
			}
		}
	}
	rs.mu.Unlock()
	select {
	case rs.poke <- struct{}{}:
	default:
	}
	if done != nil && rs.onEvent != nil {
		rs.onEvent(rs, done.id, done.hasID, done.seq, done.name)
	}
}

func (rs *akRawServer) snapshot() []akRawFrame {
	rs.mu.Lock()
	defer rs.mu.Unlock()
	return append([]akRawFrame{}, rs.frames...)
}

// akProjectFrame maps a frame of this harness to (packet number, index): text frames carry the packet
// number as their first argument, akAttachments carry {pk, index, 0xC3}.
func akProjectFrame(bin bool, data []byte) [2]int {
	if bin {
		if len(data) == 3 && data[2] == 0xC3 {
			return [2]int{int(data[0]), int(data[1])}
		}
		return [2]int{-1, -1}
	}
	_, _, _, _, arr, ok := akParseSioText(string(data))
	if ok && len(arr) >= 2 {
		if f, isNum := arr[1].(float64); isNum {
			return [2]int{int(f), 0}
		}
	}
	return [2]int{-1, -1}
}

func akWsOnly() eio.ClientConfig { return eio.ClientConfig{Transports: []string{"websocket"}} }
func akPollOnly() eio.ClientConfig {
	return eio.ClientConfig{Transports: []string{"polling"}}
}

// ---------------------------------------------------------------- mode purge

type akPurgePkt struct {
	Kind string `json:"k"` // T | K | N
	Natt int    `json:"n"`
}

type akPurgeRow struct {
	Mode        string       `json:"mode"`
	Layout      []akPurgePkt `json:"layout"`
	EmitBlocked bool         `json:"emit_blocked"`
	BufOK       bool         `json:"buf_ok"`
	Buf         [][3]int     `json:"buf"`        // tag (-1 none), pk, idx  -- after the timeouts
	InvBefore   [][]akAckInv `json:"inv_before"` // per packet (empty for N), before Connect
	ProbeRet    bool         `json:"probe_ret"`  // a later Emit returned
	Connected   bool         `json:"connected"`
	Wire        [][2]int     `json:"wire"`      // frames the peer received after Connect, in order
	InvAfter    [][]akAckInv `json:"inv_after"` // per packet, at the end
	Pending     []int        `json:"pending"`   // ack ids still in the table at the end (-1: table mutex stuck)
	Ms          int64        `json:"ms"`
	Err         string       `json:"err,omitempty"`
}

const akPurgeProbeSeq = 99

func akRunPurge(layout []akPurgePkt, shortMs int, patience time.Duration) akPurgeRow {
	start := time.Now()
	row := akPurgeRow{Mode: "purge", Layout: layout, Buf: [][3]int{}, Wire: [][2]int{}, Pending: []int{}}
	rs, err := akNewRawServer(func(rs *akRawServer, id int, hasID bool, seq int, name string) {
		if hasID {
			akSendAck(rs.sock, id, 1000+seq, false)
		}
	})
	if err != nil {
		row.Err = err.Error()
		return row
	}
	defer rs.close()
	manager := sio.NewManager(rs.ts.URL, &sio.ManagerConfig{EIO: akWsOnly(), NoReconnection: true})
	socket := manager.Socket("/", nil)
	defer manager.Close()
	connected := make(chan struct{}, 1)
	socket.OnConnect(func() {
		select {
		case connected <- struct{}{}:
		default:
		}
	})

	recs := make([]*akAckRec, len(layout))
	for i := range layout {
		recs[i] = akNewAckRec(true, false)
	}
	emitted := make(chan struct{})
	go func() {
		for i, p := range layout {
			v := append([]any{i}, akAttachments(i, p.Natt)...)
			switch p.Kind {
			case "T":
				recs[i].t0 = time.Now()
				socket.Timeout(time.Duration(shortMs)*time.Millisecond).Emit("ev", append(v, recs[i].callback())...)
			case "K":
				recs[i].t0 = time.Now()
				socket.Timeout(60*time.Second).Emit("ev", append(v, recs[i].callback())...)
			default:
				socket.Emit("ev", v...)
			}
		}
		close(emitted)
	}()
	select {
	case <-emitted:
	case <-time.After(patience + 2*time.Second):
		row.EmitBlocked = true
	}
	for i, p := range layout {
		if p.Kind == "T" {
			recs[i].waitCount(1, time.Duration(shortMs)*time.Millisecond+patience)
		}
	}
	// a little more time so that a second (wrong) invocation or a late purge would be seen
	time.Sleep(15 * time.Millisecond)
	collect := func() [][]akAckInv {
		out := make([][]akAckInv, len(layout))
		for i := range layout {
			out[i] = recs[i].snapshot()
		}
		return out
	}
	row.InvBefore = collect()
	frames, ok := sio.VerifSendBuffer(socket, patience)
	row.BufOK = ok
	for _, f := range frames {
		pr := akProjectFrame(f.Binary, f.Data)
		row.Buf = append(row.Buf, [3]int{int(f.Tag), pr[0], pr[1]})
	}
	probeDone := make(chan struct{})
	go func() {
		socket.Emit("ev", akPurgeProbeSeq)
		close(probeDone)
	}()
	select {
	case <-probeDone:
		row.ProbeRet = true
	case <-time.After(patience):
	}
	socket.Connect()
	select {
	case <-connected:
		row.Connected = true
	case <-time.After(patience + 2*time.Second):
	}
	// wait for the probe frame (or give up)
	deadline := time.Now().Add(patience + time.Second)
	for time.Now().Before(deadline) {
		got := false
		for _, f := range rs.snapshot() {
			if pr := akProjectFrame(f.Bin, f.Data); pr[0] == akPurgeProbeSeq {
				got = true
			}
		}
		if got {
			break
		}
		select {
		case <-rs.poke:
		case <-time.After(5 * time.Millisecond):
		}
	}
	for i, p := range layout {
		if p.Kind == "K" {
			recs[i].waitCount(1, patience)
		}
	}
	time.Sleep(15 * time.Millisecond)
	for _, f := range rs.snapshot() {
		row.Wire = append(row.Wire, akProjectFrame(f.Bin, f.Data))
	}
	row.InvAfter = collect()
	if ids, ok := sio.VerifPendingAcks(socket, patience); ok {
		for _, id := range ids {
			row.Pending = append(row.Pending, int(id))
		}
		sort.Ints(row.Pending)
	} else {
		row.Pending = []int{-1}
	}
	row.Ms = time.Since(start).Milliseconds()
	return row
}

func akPurgeLayouts(maxPk int) [][]akPurgePkt {
	var menu []akPurgePkt
	for _, k := range []string{"T", "K", "N"} {
		for n := 0; n <= 3; n++ {
			menu = append(menu, akPurgePkt{k, n})
		}
	}
	var out [][]akPurgePkt
	var rec func(prefix []akPurgePkt)
	rec = func(prefix []akPurgePkt) {
		if len(prefix) > 0 {
			out = append(out, append([]akPurgePkt{}, prefix...))
		}
		if len(prefix) == maxPk {
			return
		}
		for _, m := range menu {
			rec(append(prefix, m))
		}
	}
	rec(nil)
	return out
}

// ---------------------------------------------------------------- modes race / forced (real server + real client)

type akRaceSpec struct {
	Dir     string `json:"dir"`     // c2s: client emits, server answers; s2c: the reverse
	Timeout int    `json:"timeout"` // ms, 0 = none
	Delay   int    `json:"delay"`   // ms the peer waits before calling the ack function; -1 = never
	Natt    int    `json:"natt"`
	RBin    bool   `json:"rbin"`  // reply carries a Binary
	Conn    string `json:"conn"`  // connected | notyet (emit first, connect after ConnAfter ms) | cut (peer's side is cut after CutAfter ms)
	After   int    `json:"after"` // ms, for notyet / cut
	Calls   int    `json:"calls"` // how many times the peer calls the ack function (second call: code+1)
	Many    int    `json:"many"`  // other acks outstanding on the same socket at the same time
	Tr      string `json:"tr"`    // websocket | polling
	Order   string `json:"order"` // forced mode: reply-first | timer-first | together | reply-held | timer-held | "" (free running)
	Hold    bool   `json:"hold"`  // the callback blocks until the other party (timer / late reply) had its turn
}

type akRaceRow struct {
	Mode      string       `json:"mode"`
	Spec      akRaceSpec   `json:"spec"`
	Code      int          `json:"code"`       // the value the peer passes to the ack function (first call)
	Invs      []akAckInv   `json:"invs"`       // invocations of the callback under test
	PeerCalls []int64      `json:"peer_calls"` // ms since Emit at which the peer called the ack function
	PeerGot   bool         `json:"peer_got"`   // the peer's handler ran
	Others    [][]akAckInv `json:"others"`     // invocations of the other outstanding callbacks
	OtherExp  []int        `json:"other_exp"`  // their expected reply codes
	Pending   []int        `json:"pending"`    // ack ids left in the emitter's table at the end
	Usable    bool         `json:"usable"`     // a final emit+ack round trip on the same socket pair worked
	Ms        int64        `json:"ms"`
	Err       string       `json:"err,omitempty"`
}

// event names: e<natt> (ack func(int)), b<natt> (ack func(int, Binary))
func akEvName(natt int, rbin bool) string {
	if rbin {
		return "b" + strconv.Itoa(natt)
	}
	return "e" + strconv.Itoa(natt)
}

type akPeerPlan struct {
	delay int
	calls int
	gate  chan struct{} // forced mode: the peer waits for it before answering
}

type akOnEventer interface {
	OnEvent(eventName string, handler any)
}

// akRegisterPeerHandlers installs, for natt 0..3 and both reply shapes, a handler that looks up what to
// do with packet number seq, waits, and calls the ack function.
func akRegisterPeerHandlers(sock akOnEventer, plan func(seq int) *akPeerPlan, called func(seq int, code int), got func(seq int)) {
	answer := func(seq int, ack func(code int)) {
		got(seq)
		p := plan(seq)
		if p == nil {
			ack(1000 + seq)
			called(seq, 1000+seq)
			return
		}
		go func() {
			if p.gate != nil {
				<-p.gate
			}
			if p.delay < 0 {
				return
			}
			if p.delay > 0 {
				time.Sleep(time.Duration(p.delay) * time.Millisecond)
			}
			for c := 0; c < p.calls; c++ {
				called(seq, 1000+seq+c)
				ack(1000 + seq + c)
			}
		}()
	}
	bin := sio.Binary([]byte{0xAA, 0xBB, 0xCC, 0xDD, 0xEE})
	sock.OnEvent("e0", func(seq int, ack func(int)) { answer(seq, func(c int) { ack(c) }) })
	sock.OnEvent("e1", func(seq int, a sio.Binary, ack func(int)) { answer(seq, func(c int) { ack(c) }) })
	sock.OnEvent("e2", func(seq int, a, b sio.Binary, ack func(int)) { answer(seq, func(c int) { ack(c) }) })
	sock.OnEvent("e3", func(seq int, a, b, c sio.Binary, ack func(int)) { answer(seq, func(c int) { ack(c) }) })
	sock.OnEvent("b0", func(seq int, ack func(int, sio.Binary)) { answer(seq, func(c int) { ack(c, bin) }) })
	sock.OnEvent("b1", func(seq int, a sio.Binary, ack func(int, sio.Binary)) {
		answer(seq, func(c int) { ack(c, bin) })
	})
	sock.OnEvent("b2", func(seq int, a, b sio.Binary, ack func(int, sio.Binary)) {
		answer(seq, func(c int) { ack(c, bin) })
	})
	sock.OnEvent("b3", func(seq int, a, b, c sio.Binary, ack func(int, sio.Binary)) {
		answer(seq, func(c int) { ack(c, bin) })
	})
}

// yield gate (forced mode): one scenario at a time per process.
type akYieldGate struct {
	mu      sync.Mutex
	active  bool
	parked  chan struct{}
	release chan struct{}
}

var akTheGate akYieldGate
var akGateInstalled atomic.Bool

func akInstallGate() {
	if akGateInstalled.Swap(true) {
		return
	}
	sio.VerifSetYieldHandler(func(point string) {
		if point != "ack-timer-after-sleep" {
			return
		}
		akTheGate.mu.Lock()
		if !akTheGate.active {
			akTheGate.mu.Unlock()
			return
		}
		parked, release := akTheGate.parked, akTheGate.release
		akTheGate.mu.Unlock()
		select {
		case parked <- struct{}{}:
		default:
		}
		<-release
	})
}

func akRunRace(spec akRaceSpec, patience time.Duration) akRaceRow {
	start := time.Now()
	row := akRaceRow{Mode: "race", Spec: spec, Invs: []akAckInv{}, PeerCalls: []int64{}, Others: [][]akAckInv{}, OtherExp: []int{}, Pending: []int{}}
	if spec.Order != "" {
		row.Mode = "forced"
	}
	const seq = 7
	row.Code = 1000 + seq

	var (
		mu        sync.Mutex
		emitAt    time.Time
		peerCalls []int64
		plans     = map[int]*akPeerPlan{}
	)
	plan := func(s int) *akPeerPlan {
		mu.Lock()
		defer mu.Unlock()
		return plans[s]
	}
	called := func(s int, code int) {
		if s == seq {
			mu.Lock()
			peerCalls = append(peerCalls, time.Since(emitAt).Milliseconds())
			mu.Unlock()
		}
	}
	var peerGot atomic.Bool
	got := func(s int) {
		if s == seq {
			peerGot.Store(true)
		}
	}
	var replyGate chan struct{}
	if spec.Order != "" {
		replyGate = make(chan struct{})
	}
	plans[seq] = &akPeerPlan{delay: spec.Delay, calls: spec.Calls, gate: replyGate}

	srv := sio.NewServer(&sio.ServerConfig{})
	if err := srv.Run(); err != nil {
		row.Err = err.Error()
		return row
	}
	ts := httptest.NewServer(srv)
	defer func() {
		srv.Close()
		ts.Close()
	}()
	ecfg := akWsOnly()
	if spec.Tr == "polling" {
		ecfg = akPollOnly()
	}
	manager := sio.NewManager(ts.URL, &sio.ManagerConfig{EIO: ecfg, NoReconnection: true})
	client := manager.Socket("/", nil)
	defer manager.Close()

	srvSock := make(chan sio.ServerSocket, 1)
	srv.OnConnection(func(s sio.ServerSocket) {
		if spec.Dir == "c2s" {
			akRegisterPeerHandlers(s, plan, called, got)
		}
		s.OnEvent("fin", func(ack func(int)) { ack(4242) })
		select {
		case srvSock <- s:
		default:
		}
	})
	if spec.Dir == "s2c" {
		akRegisterPeerHandlers(client, plan, called, got)
	}
	client.OnEvent("fin", func(ack func(int)) { ack(4242) })

	var ss sio.ServerSocket
	connect := func() bool {
		client.Connect()
		select {
		case ss = <-srvSock:
			return true
		case <-time.After(patience + 3*time.Second):
			row.Err = "no connection"
			return false
		}
	}
	if spec.Conn != "notyet" || spec.Dir == "s2c" {
		if !connect() {
			return row
		}
		// the client reports Connected a little after the server side ran OnConnection
		for i := 0; i < 400 && !client.Connected(); i++ {
			time.Sleep(time.Millisecond)
		}
	}

	var emitter sio.Socket = client
	if spec.Dir == "s2c" {
		emitter = ss
	}
	rec := akNewAckRec(spec.Timeout > 0, spec.RBin)
	if spec.Hold || spec.Order == "reply-held" || spec.Order == "timer-held" {
		rec.hold = make(chan struct{})
	}
	others := make([]*akAckRec, spec.Many)
	if spec.Order != "" {
		akInstallGate()
		akTheGate.mu.Lock()
		akTheGate.active = true
		akTheGate.parked = make(chan struct{}, 8)
		akTheGate.release = make(chan struct{})
		akTheGate.mu.Unlock()
		defer func() {
			akTheGate.mu.Lock()
			if akTheGate.active {
				akTheGate.active = false
				close(akTheGate.release)
			}
			akTheGate.mu.Unlock()
		}()
	}

	// other acks outstanding: answered at once by the peer (no timeout on them in forced mode)
	for i := range others {
		others[i] = akNewAckRec(false, false)
		others[i].t0 = time.Now()
		s := 100 + i
		row.OtherExp = append(row.OtherExp, 1000+s)
		mu.Lock()
		plans[s] = &akPeerPlan{delay: (i % 4) * 5, calls: 1}
		mu.Unlock()
		emitter.Emit("e0", s, others[i].callback())
	}

	v := append([]any{seq}, akAttachments(seq, spec.Natt)...)
	v = append(v, rec.callback())
	mu.Lock()
	emitAt = time.Now()
	mu.Unlock()
	rec.t0 = emitAt
	name := akEvName(spec.Natt, spec.RBin)
	if spec.Timeout > 0 {
		emitter.Timeout(time.Duration(spec.Timeout)*time.Millisecond).Emit(name, v...)
	} else {
		emitter.Emit(name, v...)
	}

	switch spec.Conn {
	case "notyet":
		if spec.Dir == "c2s" {
			time.Sleep(time.Duration(spec.After) * time.Millisecond)
			if !connect() {
				return row
			}
		}
	case "cut":
		time.Sleep(time.Duration(spec.After) * time.Millisecond)
		// cut the connection under the emitter: the peer goes away
		if spec.Dir == "c2s" {
			ss.Disconnect(true)
		} else {
			manager.Close()
		}
	}

	expectInv := spec.Timeout > 0 || (spec.Delay >= 0 && spec.Conn != "cut")
	switch spec.Order {
	case "reply-first":
		select {
		case <-akTheGate.parked:
		case <-time.After(patience + 2*time.Second):
			row.Err = "timer never reached the yield point"
		}
		close(replyGate)
		rec.waitCount(1, patience+time.Second)
		akTheGate.mu.Lock()
		akTheGate.active = false
		close(akTheGate.release)
		akTheGate.mu.Unlock()
	case "timer-first":
		select {
		case <-akTheGate.parked:
		case <-time.After(patience + 2*time.Second):
			row.Err = "timer never reached the yield point"
		}
		akTheGate.mu.Lock()
		akTheGate.active = false
		close(akTheGate.release)
		akTheGate.mu.Unlock()
		rec.waitCount(1, patience+time.Second)
		close(replyGate)
	case "reply-held":
		// the timer has expired and is parked; the reply arrives, its callback starts and blocks;
		// only then the timer goroutine goes on, while the callback is still executing
		select {
		case <-akTheGate.parked:
		case <-time.After(patience + 2*time.Second):
			row.Err = "timer never reached the yield point"
		}
		close(replyGate)
		rec.waitCount(1, patience+time.Second)
		akTheGate.mu.Lock()
		akTheGate.active = false
		close(akTheGate.release)
		akTheGate.mu.Unlock()
		rec.waitCount(2, 80*time.Millisecond)
		close(rec.hold)
	case "timer-held":
		// the timeout callback starts and blocks; the reply arrives while it is still executing
		select {
		case <-akTheGate.parked:
		case <-time.After(patience + 2*time.Second):
			row.Err = "timer never reached the yield point"
		}
		akTheGate.mu.Lock()
		akTheGate.active = false
		close(akTheGate.release)
		akTheGate.mu.Unlock()
		rec.waitCount(1, patience+time.Second)
		close(replyGate)
		rec.waitCount(2, 80*time.Millisecond)
		close(rec.hold)
	case "together":
		select {
		case <-akTheGate.parked:
		case <-time.After(patience + 2*time.Second):
			row.Err = "timer never reached the yield point"
		}
		akTheGate.mu.Lock()
		akTheGate.active = false
		rel := akTheGate.release
		akTheGate.mu.Unlock()
		go close(replyGate)
		close(rel)
		rec.waitCount(1, patience+time.Second)
	default:
		if spec.Hold {
			// the first invocation (reply or timeout) starts and blocks; it is released only after the
			// other party has certainly had its turn: max(timeout, delay) + 100 ms after the emit
			w := patience + time.Second + time.Duration(spec.Timeout)*time.Millisecond
			if spec.Delay > 0 {
				w += time.Duration(spec.Delay) * time.Millisecond
			}
			rec.waitCount(1, w)
			m := spec.Timeout
			if spec.Delay > m {
				m = spec.Delay
			}
			if rest := time.Until(emitAt.Add(time.Duration(m+100) * time.Millisecond)); rest > 0 {
				time.Sleep(rest)
			}
			close(rec.hold)
		}
		if expectInv {
			wait := patience + time.Second
			if spec.Timeout > 0 {
				wait += time.Duration(spec.Timeout) * time.Millisecond
			}
			if spec.Delay > 0 {
				wait += time.Duration(spec.Delay) * time.Millisecond
			}
			rec.waitCount(1, wait)
		}
	}
	// let the loser of the race (late reply / late timer / second ack call) arrive as well
	settle := 40
	if spec.Timeout > 0 && spec.Delay >= 0 {
		late := spec.Delay - int(time.Since(emitAt).Milliseconds()) + 40
		if spec.Timeout-int(time.Since(emitAt).Milliseconds())+40 > late {
			late = spec.Timeout - int(time.Since(emitAt).Milliseconds()) + 40
		}
		if late > settle {
			settle = late
		}
	}
	time.Sleep(time.Duration(settle) * time.Millisecond)
	for i := range others {
		others[i].waitCount(1, patience)
	}

	// the socket pair must still work (unless we cut it on purpose)
	if spec.Conn != "cut" {
		fin := akNewAckRec(false, false)
		fin.t0 = time.Now()
		emitter.Emit("fin", fin.callback())
		row.Usable = fin.waitCount(1, patience+time.Second)
		if row.Usable {
			s := fin.snapshot()
			row.Usable = len(s) == 1 && s[0].Code == 4242
		}
		// a late reply must have been given time to arrive before we look: the fin round trip
		// went through the same connection after it.
		time.Sleep(10 * time.Millisecond)
	} else {
		row.Usable = true
	}
	row.Invs = rec.snapshot()
	mu.Lock()
	row.PeerCalls = append(row.PeerCalls, peerCalls...)
	mu.Unlock()
	row.PeerGot = peerGot.Load()
	for i := range others {
		row.Others = append(row.Others, others[i].snapshot())
	}
	if ids, ok := sio.VerifPendingAcks(emitter, patience); ok {
		for _, id := range ids {
			row.Pending = append(row.Pending, int(id))
		}
		sort.Ints(row.Pending)
	} else {
		row.Pending = []int{-1}
	}
	row.Ms = time.Since(start).Milliseconds()
	return row
}

// ---------------------------------------------------------------- mode raw (duplicated / unsolicited ACK packets)

type akRawSpec struct {
	Side    string `json:"side"`    // client: real client emits, raw server answers; server: real server emits, raw client answers
	Timeout int    `json:"timeout"` // ms, 0 = none
	Dups    int    `json:"dups"`    // number of ACK packets for the id (codes code, code+1, ...)
	Late    int    `json:"late"`    // how many of them are sent only after the timeout has fired
	Bogus   int    `json:"bogus"`   // ACK packets for ids nobody waits for, sent first
	Natt    int    `json:"natt"`
	RBin    bool   `json:"rbin"`
	Hold    bool   `json:"hold"` // the callback blocks until the timeout has passed and the late ACK packets were sent
}

type akRawRow struct {
	Mode    string     `json:"mode"`
	Spec    akRawSpec  `json:"spec"`
	Code    int        `json:"code"`
	Invs    []akAckInv `json:"invs"`
	Usable  bool       `json:"usable"`
	Pending []int      `json:"pending"`
	Ms      int64      `json:"ms"`
	Err     string     `json:"err,omitempty"`
}

func akRunRaw(spec akRawSpec, patience time.Duration) akRawRow {
	start := time.Now()
	const seq = 5
	row := akRawRow{Mode: "raw", Spec: spec, Code: 1000 + seq, Invs: []akAckInv{}, Pending: []int{}}
	rec := akNewAckRec(spec.Timeout > 0, spec.RBin)
	if spec.Hold {
		rec.hold = make(chan struct{})
	}
	fin := akNewAckRec(false, false)
	early := spec.Dups - spec.Late
	lateGo := make(chan struct{})

	answer := func(sock eio.Socket, id int, s int) {
		if s == 1 { // the final round trip
			akSendAck(sock, id, 4242, false)
			return
		}
		for b := 0; b < spec.Bogus; b++ {
			akSendAck(sock, 900+b, 1, false)
		}
		for d := 0; d < early; d++ {
			akSendAck(sock, id, 1000+seq+d, spec.RBin)
		}
		go func() {
			<-lateGo
			for d := early; d < spec.Dups; d++ {
				akSendAck(sock, id, 1000+seq+d, spec.RBin)
			}
		}()
	}

	var emitter sio.Socket
	if spec.Side == "client" {
		rs, err := akNewRawServer(func(rs *akRawServer, id int, hasID bool, s int, name string) {
			if hasID {
				answer(rs.sock, id, s)
			}
		})
		if err != nil {
			row.Err = err.Error()
			return row
		}
		defer rs.close()
		manager := sio.NewManager(rs.ts.URL, &sio.ManagerConfig{EIO: akWsOnly(), NoReconnection: true})
		socket := manager.Socket("/", nil)
		defer manager.Close()
		connected := make(chan struct{}, 1)
		socket.OnConnect(func() {
			select {
			case connected <- struct{}{}:
			default:
			}
		})
		socket.Connect()
		select {
		case <-connected:
		case <-time.After(patience + 3*time.Second):
			row.Err = "no connection"
			return row
		}
		emitter = socket
	} else {
		srv := sio.NewServer(&sio.ServerConfig{})
		if err := srv.Run(); err != nil {
			row.Err = err.Error()
			return row
		}
		ts := httptest.NewServer(srv)
		defer func() {
			srv.Close()
			ts.Close()
		}()
		srvSock := make(chan sio.ServerSocket, 1)
		srv.OnConnection(func(s sio.ServerSocket) { srvSock <- s })
		var (
			cmu     sync.Mutex
			csock   eio.ClientSocket
			pending *akRawEvent
		)
		ready := make(chan struct{})
		cb := &eio.Callbacks{OnPacket: func(packets ...*parser.Packet) {
			for _, p := range packets {
				if p.Type != parser.PacketTypeMessage {
					continue
				}
				<-ready
				cmu.Lock()
				var done *akRawEvent
				if p.IsBinary {
					if pending != nil {
						pending.left--
						if pending.left == 0 {
							done, pending = pending, nil
						}
					}
				} else {
					typ, natt, id, hasID, arr, ok := akParseSioText(string(p.Data))
					if ok && (typ == '2' || typ == '5') && len(arr) >= 1 && hasID {
						ev := &akRawEvent{id: id, hasID: true, left: natt}
						if len(arr) >= 2 {
							if f, isNum := arr[1].(float64); isNum {
								ev.seq = int(f)
							}
						}
						if natt == 0 {
							done = ev
						} else {
							pending = ev
						}
					}
				}
				sock := csock
				cmu.Unlock()
				if done != nil {
					answer(sock, done.id, done.seq)
				}
			}
		}}
		cs, err := eio.Dial(ts.URL+"/socket.io/", cb, &eio.ClientConfig{Transports: []string{"websocket"}})
		if err != nil {
			row.Err = "dial: " + err.Error()
			return row
		}
		cmu.Lock()
		csock = cs
		cmu.Unlock()
		close(ready)
		defer cs.Close()
		akSendText(cs, "0")
		select {
		case emitter = <-srvSock:
		case <-time.After(patience + 3*time.Second):
			row.Err = "no connection"
			return row
		}
	}

	v := append([]any{seq}, akAttachments(seq, spec.Natt)...)
	v = append(v, rec.callback())
	rec.t0 = time.Now()
	name := akEvName(spec.Natt, spec.RBin)
	if spec.Timeout > 0 {
		emitter.Timeout(time.Duration(spec.Timeout)*time.Millisecond).Emit(name, v...)
	} else {
		emitter.Emit(name, v...)
	}
	if early > 0 || spec.Timeout > 0 {
		rec.waitCount(1, patience+time.Duration(spec.Timeout)*time.Millisecond+time.Second)
	}
	if spec.Timeout > 0 && early == 0 {
		// the timeout has fired (or never will): now send the late duplicates
	} else if spec.Timeout > 0 {
		time.Sleep(time.Duration(spec.Timeout+30) * time.Millisecond)
	}
	close(lateGo)
	time.Sleep(40 * time.Millisecond)
	if spec.Hold {
		close(rec.hold)
		time.Sleep(10 * time.Millisecond)
	}
	fin.t0 = time.Now()
	emitter.Emit("e0", 1, fin.callback())
	row.Usable = fin.waitCount(1, patience+time.Second)
	if row.Usable {
		s := fin.snapshot()
		row.Usable = len(s) == 1 && s[0].Code == 4242
	}
	time.Sleep(10 * time.Millisecond)
	row.Invs = rec.snapshot()
	if ids, ok := sio.VerifPendingAcks(emitter, patience); ok {
		for _, id := range ids {
			row.Pending = append(row.Pending, int(id))
		}
		sort.Ints(row.Pending)
	} else {
		row.Pending = []int{-1}
	}
	row.Ms = time.Since(start).Milliseconds()
	return row
}

// ---------------------------------------------------------------- mode rawpeer (the real socket is the ANSWERING side)

type akPeerSpec struct {
	Side  string `json:"side"`  // client: the real client answers a raw server; server: the real server answers a raw client
	Calls int    `json:"calls"` // how often the handler calls the ack function (codes code, code+1, ...)
	Conc  bool   `json:"conc"`  // the calls come from separate goroutines
	Natt  int    `json:"natt"`  // attachments of the event
	Hands int    `json:"hands"` // handlers registered for the event (each calls the ack function Calls times)
}

type akPeerRow struct {
	Mode string     `json:"mode"`
	Spec akPeerSpec `json:"spec"`
	Code int        `json:"code"`
	Seen []int      `json:"seen"` // first argument of every ACK packet the raw side received for the id
	Ms   int64      `json:"ms"`
	Err  string     `json:"err,omitempty"`
}

func akRunPeer(spec akPeerSpec, patience time.Duration) akPeerRow {
	start := time.Now()
	const seq, ackID = 3, 17
	row := akPeerRow{Mode: "rawpeer", Spec: spec, Code: 1000 + seq, Seen: []int{}}
	var firstMu sync.Mutex
	first := -1
	handler := func(h int) any {
		return func(n int, ack func(int)) {
			call := func(c int) {
				firstMu.Lock()
				if first < 0 {
					first = 1000 + seq + c + 10*h
				}
				firstMu.Unlock()
				ack(1000 + seq + c + 10*h)
			}
			for c := 0; c < spec.Calls; c++ {
				if spec.Conc {
					go call(c)
				} else {
					call(c)
				}
			}
		}
	}
	eventText := fmt.Sprintf("2%d[\"pe\",%d]", ackID, seq)
	var seen func() []int
	if spec.Side == "client" {
		rs, err := akNewRawServer(nil)
		if err != nil {
			row.Err = err.Error()
			return row
		}
		defer rs.close()
		manager := sio.NewManager(rs.ts.URL, &sio.ManagerConfig{EIO: akWsOnly(), NoReconnection: true})
		socket := manager.Socket("/", nil)
		defer manager.Close()
		for h := 0; h < spec.Hands; h++ {
			socket.OnEvent("pe", handler(h))
		}
		connected := make(chan struct{}, 1)
		socket.OnConnect(func() {
			select {
			case connected <- struct{}{}:
			default:
			}
		})
		socket.Connect()
		select {
		case <-connected:
		case <-time.After(patience + 3*time.Second):
			row.Err = "no connection"
			return row
		}
		rs.mu.Lock()
		sock := rs.sock
		rs.mu.Unlock()
		akSendText(sock, eventText)
		seen = func() []int {
			rs.mu.Lock()
			defer rs.mu.Unlock()
			out := []int{}
			for _, a := range rs.acks {
				if a[0] == ackID {
					out = append(out, a[1])
				}
			}
			return out
		}
	} else {
		srv := sio.NewServer(&sio.ServerConfig{})
		if err := srv.Run(); err != nil {
			row.Err = err.Error()
			return row
		}
		ts := httptest.NewServer(srv)
		defer func() {
			srv.Close()
			ts.Close()
		}()
		up := make(chan struct{}, 1)
		srv.OnConnection(func(s sio.ServerSocket) {
			for h := 0; h < spec.Hands; h++ {
				s.OnEvent("pe", handler(h))
			}
			up <- struct{}{}
		})
		var (
			cmu  sync.Mutex
			acks []int
		)
		cb := &eio.Callbacks{OnPacket: func(packets ...*parser.Packet) {
			for _, p := range packets {
				if p.Type != parser.PacketTypeMessage || p.IsBinary {
					continue
				}
				typ, _, id, hasID, arr, ok := akParseSioText(string(p.Data))
				if ok && typ == '3' && hasID && id == ackID && len(arr) >= 1 {
					if f, isNum := arr[0].(float64); isNum {
						cmu.Lock()
						acks = append(acks, int(f))
						cmu.Unlock()
					}
				}
			}
		}}
		cs, err := eio.Dial(ts.URL+"/socket.io/", cb, &eio.ClientConfig{Transports: []string{"websocket"}})
		if err != nil {
			row.Err = "dial: " + err.Error()
			return row
		}
		defer cs.Close()
		akSendText(cs, "0")
		select {
		case <-up:
		case <-time.After(patience + 3*time.Second):
			row.Err = "no connection"
			return row
		}
		time.Sleep(5 * time.Millisecond)
		akSendText(cs, eventText)
		seen = func() []int {
			cmu.Lock()
			defer cmu.Unlock()
			return append([]int{}, acks...)
		}
	}
	deadline := time.Now().Add(patience + time.Second)
	for time.Now().Before(deadline) && len(seen()) == 0 {
		time.Sleep(2 * time.Millisecond)
	}
	time.Sleep(50 * time.Millisecond) // a second ACK packet would follow at once
	row.Seen = seen()
	firstMu.Lock()
	if !spec.Conc && spec.Hands == 1 {
		row.Code = 1000 + seq
	} else if first >= 0 {
		row.Code = -1 // several callers race: any one of their values may be the first
	}
	firstMu.Unlock()
	row.Ms = time.Since(start).Milliseconds()
	return row
}

func akPeerSpecs() []akPeerSpec {
	var out []akPeerSpec
	for _, side := range []string{"client", "server"} {
		for calls := 1; calls <= 3; calls++ {
			for _, conc := range []bool{false, true} {
				for hands := 1; hands <= 2; hands++ {
					out = append(out, akPeerSpec{Side: side, Calls: calls, Conc: conc, Hands: hands})
				}
			}
		}
	}
	return out
}

// ---------------------------------------------------------------- mode queue (clientPacketQueue, Retries > 0)

type akQueueRow struct {
	Mode     string     `json:"mode"`
	Retries  int        `json:"retries"`
	Timeout  int        `json:"timeout"`
	CutAt    int        `json:"cut_at"` // ms after Emit at which the server drops the connection (-1: never)
	Delay    int        `json:"delay"`  // ms the server handler waits before answering
	Invs     []akAckInv `json:"invs"`
	Invs2    []akAckInv `json:"invs2"`   // callback of a second packet queued behind the first
	Handled  int        `json:"handled"` // how often the server handler ran
	Connects int        `json:"connects"`
	Ms       int64      `json:"ms"`
	Err      string     `json:"err,omitempty"`
}

func akRunQueue(retries, timeoutMs, cutAt, delay int, patience time.Duration) (row akQueueRow) {
	start := time.Now()
	row = akQueueRow{Mode: "queue", Retries: retries, Timeout: timeoutMs, CutAt: cutAt, Delay: delay, Invs: []akAckInv{}}
	srv := sio.NewServer(&sio.ServerConfig{})
	if err := srv.Run(); err != nil {
		row.Err = err.Error()
		return row
	}
	ts := httptest.NewServer(srv)
	defer func() {
		srv.Close()
		ts.Close()
	}()
	var handled, connects atomic.Int32
	socks := make(chan sio.ServerSocket, 8)
	srv.OnConnection(func(s sio.ServerSocket) {
		connects.Add(1)
		s.OnEvent("q", func(n int, ack func(int)) {
			handled.Add(1)
			go func() {
				time.Sleep(time.Duration(delay) * time.Millisecond)
				ack(n + 1)
			}()
		})
		socks <- s
	})
	rd := 20 * time.Millisecond
	manager := sio.NewManager(ts.URL, &sio.ManagerConfig{EIO: akWsOnly(), ReconnectionDelay: &rd, ReconnectionDelayMax: &rd})
	socket := manager.Socket("/", &sio.ClientSocketConfig{Retries: retries, AckTimeout: time.Duration(timeoutMs) * time.Millisecond})
	defer manager.Close()
	socket.Connect()
	var ss sio.ServerSocket
	select {
	case ss = <-socks:
	case <-time.After(patience + 3*time.Second):
		row.Err = "no connection"
		return row
	}
	for i := 0; i < 400 && !socket.Connected(); i++ {
		time.Sleep(time.Millisecond)
	}
	rec := akNewAckRec(true, false)
	rec.t0 = time.Now()
	socket.Emit("q", 41, rec.callback())
	rec2 := akNewAckRec(true, false)
	rec2.t0 = rec.t0
	socket.Emit("q", 51, rec2.callback())
	defer func() { row.Invs2 = rec2.snapshot() }()
	if cutAt >= 0 {
		time.Sleep(time.Duration(cutAt) * time.Millisecond)
		ss.Disconnect(true)
	}
	rec.waitCount(1, patience+time.Duration(timeoutMs*(retries+2))*time.Millisecond)
	time.Sleep(time.Duration(timeoutMs*(retries+1)+delay+100) * time.Millisecond)
	row.Invs = rec.snapshot()
	row.Handled = int(handled.Load())
	row.Connects = int(connects.Load())
	row.Ms = time.Since(start).Milliseconds()
	return row
}

// ---------------------------------------------------------------- mode queuewin (retry queue: a second Emit at a chosen point)

// akHookDebugger is a sio.Debugger (public ManagerConfig.Debugger): when the word is logged for the
// occ-th time after arming, it runs the hook once, synchronously, in the goroutine that logged.
type akHookDebugger struct {
	mu    sync.Mutex
	armed bool
	word  string
	occ   int
	seen  int
	fired bool
	hook  func()
}

func (d *akHookDebugger) Log(main string, v ...any) {
	d.mu.Lock()
	if !d.armed || d.fired {
		d.mu.Unlock()
		return
	}
	hit := main == d.word
	for _, x := range v {
		if str, ok := x.(string); ok && str == d.word {
			hit = true
		}
	}
	if !hit {
		d.mu.Unlock()
		return
	}
	d.seen++
	if d.seen != d.occ {
		d.mu.Unlock()
		return
	}
	d.fired = true
	hook := d.hook
	d.mu.Unlock()
	hook()
}

func (d *akHookDebugger) WithContext(string) sio.Debugger                       { return d }
func (d *akHookDebugger) WithDynamicContext(string, func() string) sio.Debugger { return d }

type akWinSpec struct {
	Kind int    `json:"kind"` // 0: server answers at once; 1: ignores the first attempt of packet 1; 2: never answers packet 1
	Word string `json:"word"` // log line at which the second Emit runs ("" = after everything)
	Occ  int    `json:"occ"`
	Pos  int    `json:"pos"` // the same point as an index into the model's canonical schedule
}

type akWinRow struct {
	Mode  string     `json:"mode"`
	Spec  akWinSpec  `json:"spec"`
	Fired bool       `json:"fired"` // the window was reached and the second Emit ran there
	Invs0 []akAckInv `json:"invs0"`
	Invs1 []akAckInv `json:"invs1"`
	Seen0 int        `json:"seen0"`
	Seen1 int        `json:"seen1"`
	Hung  bool       `json:"hung"` // the scenario did not come to an end (an Emit or Close never returned)
	Ms    int64      `json:"ms"`
	Err   string     `json:"err,omitempty"`
}

// akRunWinGuarded gives a scenario a deadline: a wedged socket (an Emit that never returns) must not
// hang the harness; it is reported as a row without invocations.
func akRunWinGuarded(spec akWinSpec, patience time.Duration) akWinRow {
	done := make(chan akWinRow, 1)
	go func() { done <- akRunWin(spec, patience) }()
	select {
	case r := <-done:
		return r
	case <-time.After(4*patience + 8*time.Second):
		return akWinRow{Mode: "queuewin", Spec: spec, Hung: true, Invs0: []akAckInv{}, Invs1: []akAckInv{}}
	}
}

func akRunWin(spec akWinSpec, patience time.Duration) akWinRow {
	start := time.Now()
	const T = 250
	row := akWinRow{Mode: "queuewin", Spec: spec, Invs0: []akAckInv{}, Invs1: []akAckInv{}}
	srv := sio.NewServer(&sio.ServerConfig{})
	if err := srv.Run(); err != nil {
		row.Err = err.Error()
		return row
	}
	ts := httptest.NewServer(srv)
	defer func() {
		srv.Close()
		ts.Close()
	}()
	var seen0, seen1 atomic.Int32
	up := make(chan struct{}, 4)
	srv.OnConnection(func(s sio.ServerSocket) {
		s.OnEvent("q", func(n int, ack func(int)) {
			if n == 1 {
				k := seen0.Add(1)
				if spec.Kind == 2 || (spec.Kind == 1 && k == 1) {
					return
				}
			} else {
				seen1.Add(1)
				// the second packet is answered a little later, so that whatever is still in flight for
				// the first one (a re-sent copy, say) is answered first
				go func() {
					time.Sleep(120 * time.Millisecond)
					ack(n * 100)
				}()
				return
			}
			ack(n * 100)
		})
		up <- struct{}{}
	})
	dbg := &akHookDebugger{word: spec.Word, occ: spec.Occ}
	manager := sio.NewManager(ts.URL, &sio.ManagerConfig{EIO: akWsOnly(), NoReconnection: true, Debugger: dbg})
	socket := manager.Socket("/", &sio.ClientSocketConfig{Retries: 1, AckTimeout: T * time.Millisecond})
	defer manager.Close()
	socket.Connect()
	select {
	case <-up:
	case <-time.After(patience + 3*time.Second):
		row.Err = "no connection"
		return row
	}
	for i := 0; i < 400 && !socket.Connected(); i++ {
		time.Sleep(time.Millisecond)
	}
	time.Sleep(10 * time.Millisecond) // onConnect's own drainQueue(true) is over
	rec0 := akNewAckRec(true, false)
	rec1 := akNewAckRec(true, false)
	emit1 := func() {
		rec1.t0 = time.Now()
		socket.Emit("q", 2, rec1.callback())
	}
	dbg.mu.Lock()
	dbg.hook = emit1
	dbg.armed = spec.Word != ""
	dbg.mu.Unlock()
	rec0.t0 = time.Now()
	socket.Emit("q", 1, rec0.callback())
	rec0.waitCount(1, patience+3*T*time.Millisecond)
	dbg.mu.Lock()
	row.Fired = dbg.fired
	dbg.fired = true // from now on the window is closed
	dbg.mu.Unlock()
	if !row.Fired {
		emit1()
	}
	rec1.waitCount(1, patience+3*T*time.Millisecond)
	// a second (wrong) invocation comes with the reply to a re-sent packet, or with its timeout
	time.Sleep((T + 150) * time.Millisecond)
	row.Invs0 = rec0.snapshot()
	row.Invs1 = rec1.snapshot()
	row.Seen0 = int(seen0.Load())
	row.Seen1 = int(seen1.Load())
	row.Ms = time.Since(start).Milliseconds()
	return row
}

func akWinSpecs() []akWinSpec {
	return []akWinSpec{
		{0, "Draining queue", 1, 1}, {0, "Calling ack with ID", 1, 2}, {0, "successfully sent", 1, 4}, {0, "Draining queue", 2, 7}, {0, "", 0, 99},
		{1, "Timeout occured for ack with ID", 1, 2}, {1, "Draining queue", 2, 5}, {1, "Calling ack with ID", 1, 6},
		{1, "successfully sent", 1, 8}, {1, "Draining queue", 3, 11}, {1, "", 0, 99},
		{2, "Timeout occured for ack with ID", 1, 2}, {2, "Timeout occured for ack with ID", 2, 6}, {2, "discarded after", 1, 8},
		{2, "Draining queue", 3, 11}, {2, "", 0, 99},
	}
}

// ---------------------------------------------------------------- driver

func akParallel(n, workers int, f func(i int)) {
	var wg sync.WaitGroup
	ch := make(chan int)
	for w := 0; w < workers; w++ {
		wg.Add(1)
		go func() {
			defer wg.Done()
			for i := range ch {
				f(i)
			}
		}()
	}
	for i := 0; i < n; i++ {
		ch <- i
	}
	close(ch)
	wg.Wait()
}

func akRaceSpecs(r *vk.Rand, thorough bool) []akRaceSpec {
	var out []akRaceSpec
	T := 120
	for _, dir := range []string{"c2s", "s2c"} {
		for natt := 0; natt <= 3; natt++ {
			for _, rbin := range []bool{false, true} {
				tr := "websocket"
				if natt == 2 {
					tr = "polling"
				}
				// with a timeout: early, boundary (three points), late, never
				for _, d := range []int{0, T - 4, T, T + 4, 2*T + 60, -1} {
					if rbin && !(d == 0 || d == T) && !thorough {
						continue
					}
					calls := 1
					if d == 0 && natt%2 == 1 {
						calls = 2
					}
					many := 0
					if natt == 3 && d != -1 {
						many = 24
					}
					out = append(out, akRaceSpec{Dir: dir, Timeout: T, Delay: d, Natt: natt, RBin: rbin, Conn: "connected", Calls: calls, Many: many, Tr: tr})
				}
				// without a timeout: answered, answered twice
				if !rbin || thorough {
					out = append(out, akRaceSpec{Dir: dir, Timeout: 0, Delay: 0, Natt: natt, RBin: rbin, Conn: "connected", Calls: 1 + natt%2, Tr: tr})
				}
			}
			// cut mid-flight: the reply would come after the cut
			out = append(out, akRaceSpec{Dir: dir, Timeout: T, Delay: 60, Natt: natt, Conn: "cut", After: 15, Calls: 1, Tr: "websocket"})
			out = append(out, akRaceSpec{Dir: dir, Timeout: 0, Delay: 60, Natt: natt, Conn: "cut", After: 15, Calls: 1, Tr: "websocket"})
		}
	}
	// slow callbacks: the reply callback is still running when the timer fires; the timeout callback is
	// still running when the reply arrives; a duplicate call of the ack function meanwhile
	for _, dir := range []string{"c2s", "s2c"} {
		for _, natt := range []int{0, 2} {
			out = append(out, akRaceSpec{Dir: dir, Timeout: T, Delay: 0, Natt: natt, Conn: "connected", Calls: 1 + natt/2, Tr: "websocket", Hold: true})
			out = append(out, akRaceSpec{Dir: dir, Timeout: T, Delay: 2*T + 60, Natt: natt, Conn: "connected", Calls: 1, Tr: "websocket", Hold: true})
			out = append(out, akRaceSpec{Dir: dir, Timeout: T, Delay: T / 4, Natt: natt, RBin: true, Conn: "connected", Calls: 1, Many: 8, Tr: "websocket", Hold: true})
		}
		out = append(out, akRaceSpec{Dir: dir, Timeout: T, Delay: -1, Natt: 1, Conn: "connected", Calls: 1, Tr: "websocket", Hold: true})
		out = append(out, akRaceSpec{Dir: dir, Timeout: 0, Delay: 0, Natt: 1, Conn: "connected", Calls: 2, Tr: "websocket", Hold: true})
	}
	// emitter not yet connected (client only): connects well before / around / well after the timeout
	for natt := 0; natt <= 3; natt++ {
		for _, after := range []int{5, T, 2*T + 40} {
			out = append(out, akRaceSpec{Dir: "c2s", Timeout: T, Delay: 0, Natt: natt, Conn: "notyet", After: after, Calls: 1, Tr: "websocket"})
		}
		out = append(out, akRaceSpec{Dir: "c2s", Timeout: 0, Delay: 0, Natt: natt, Conn: "notyet", After: 20, Calls: 1, Tr: "websocket"})
	}
	// seeded extra points around the boundary
	extra := 12
	if thorough {
		extra = 120
	}
	for i := 0; i < extra; i++ {
		dir := []string{"c2s", "s2c"}[r.Intn(2)]
		out = append(out, akRaceSpec{Dir: dir, Timeout: T, Delay: T - 10 + r.Intn(21), Natt: r.Intn(4), RBin: r.Bool(), Conn: "connected", Calls: 1 + r.Intn(2), Many: []int{0, 0, 8}[r.Intn(3)], Tr: "websocket"})
	}
	return out
}

func akForcedSpecs(thorough bool) []akRaceSpec {
	var out []akRaceSpec
	for _, dir := range []string{"c2s", "s2c"} {
		for _, order := range []string{"reply-first", "timer-first", "together", "reply-held", "timer-held"} {
			for natt := 0; natt <= 3; natt++ {
				reps := 1
				if order == "together" {
					reps = 3
					if thorough {
						reps = 12
					}
				}
				for k := 0; k < reps; k++ {
					out = append(out, akRaceSpec{Dir: dir, Timeout: 8, Delay: 0, Natt: natt, RBin: natt == 1, Conn: "connected", Calls: 1, Many: (natt % 2) * 6, Tr: "websocket", Order: order})
				}
			}
		}
	}
	return out
}

func akRawSpecs(thorough bool) []akRawSpec {
	var out []akRawSpec
	for _, side := range []string{"client", "server"} {
		for _, to := range []int{0, 120} {
			for dups := 0; dups <= 3; dups++ {
				for late := 0; late <= dups; late++ {
					if to == 0 && late > 0 {
						continue
					}
					if !thorough && late > 0 && late < dups && dups == 3 && late == 2 {
						continue
					}
					out = append(out, akRawSpec{Side: side, Timeout: to, Dups: dups, Late: late, Bogus: dups % 2 * 2, Natt: (dups + late) % 4, RBin: dups == 2})
					if dups >= 1 && (to > 0 || dups >= 2) {
						out = append(out, akRawSpec{Side: side, Timeout: to, Dups: dups, Late: late, Natt: dups % 4, Hold: true})
					}
				}
			}
		}
	}
	return out
}

func acksMain(args []string) error {
	fs := flag.NewFlagSet("acks", flag.ExitOnError)
	seed := fs.Uint64("seed", 1, "")
	mode := fs.String("mode", "purge", "purge|race|forced|raw")
	tier := fs.String("tier", "quick", "")
	n := fs.Int("n", 0, "purge: number of sampled 3-packet layouts (0 = tier default)")
	only := fs.String("only", "", "JSON list of specs/layouts to run instead of the generated ones (re-runs)")
	patienceMs := fs.Int("patience", 1500, "ms to wait for something that should happen")
	workers := fs.Int("workers", 24, "")
	outp := fs.String("out", "-", "")
	fs.Parse(args)
	out, err := vk.NewOut(*outp)
	if err != nil {
		return err
	}
	defer out.Close()
	r := vk.NewRand(*seed)
	thorough := *tier == "thorough"
	patience := time.Duration(*patienceMs) * time.Millisecond

	switch *mode {
	case "purge":
		var layouts [][]akPurgePkt
		if *only != "" {
			if err := json.Unmarshal([]byte(*only), &layouts); err != nil {
				return err
			}
		} else {
			all := akPurgeLayouts(3)
			for _, l := range all {
				if len(l) <= 2 {
					layouts = append(layouts, l)
				}
			}
			var three [][]akPurgePkt
			for _, l := range all {
				if len(l) == 3 {
					three = append(three, l)
				}
			}
			k := *n
			if k == 0 {
				k = 260
				if thorough {
					k = len(three)
				}
			}
			if k >= len(three) {
				layouts = append(layouts, three...)
			} else {
				for i := 0; i < k; i++ {
					j := i + r.Intn(len(three)-i)
					three[i], three[j] = three[j], three[i]
					layouts = append(layouts, three[i])
				}
			}
		}
		rows := make([]akPurgeRow, len(layouts))
		akParallel(len(layouts), *workers, func(i int) { rows[i] = akRunPurge(layouts[i], 30, patience) })
		for _, row := range rows {
			out.Put(row)
		}
	case "race", "forced":
		var specs []akRaceSpec
		if *only != "" {
			if err := json.Unmarshal([]byte(*only), &specs); err != nil {
				return err
			}
		} else if *mode == "race" {
			specs = akRaceSpecs(r, thorough)
		} else {
			specs = akForcedSpecs(thorough)
		}
		rows := make([]akRaceRow, len(specs))
		w := *workers
		if *mode == "forced" {
			w = 1 // the yield gate is process-wide
		}
		akParallel(len(specs), w, func(i int) { rows[i] = akRunRace(specs[i], patience) })
		for _, row := range rows {
			out.Put(row)
		}
	case "raw":
		var specs []akRawSpec
		if *only != "" {
			if err := json.Unmarshal([]byte(*only), &specs); err != nil {
				return err
			}
		} else {
			specs = akRawSpecs(thorough)
		}
		rows := make([]akRawRow, len(specs))
		akParallel(len(specs), *workers, func(i int) { rows[i] = akRunRaw(specs[i], patience) })
		for _, row := range rows {
			out.Put(row)
		}
	case "queue":
		// retry queue without a reconnect, and with a reconnect while the first attempt is pending
		out.Put(akRunQueue(1, 200, -1, 20, patience))
		out.Put(akRunQueue(1, 200, 60, 150, patience))
	case "queuewin":
		var specs []akWinSpec
		if *only != "" {
			if err := json.Unmarshal([]byte(*only), &specs); err != nil {
				return err
			}
		} else {
			specs = akWinSpecs()
		}
		rows := make([]akWinRow, len(specs))
		akParallel(len(specs), *workers, func(i int) { rows[i] = akRunWinGuarded(specs[i], patience) })
		for _, row := range rows {
			out.Put(row)
		}
	case "rawpeer":
		var specs []akPeerSpec
		if *only != "" {
			if err := json.Unmarshal([]byte(*only), &specs); err != nil {
				return err
			}
		} else {
			specs = akPeerSpecs()
		}
		rows := make([]akPeerRow, len(specs))
		akParallel(len(specs), *workers, func(i int) { rows[i] = akRunPeer(specs[i], patience) })
		for _, row := range rows {
			out.Put(row)
		}
	default:
		return fmt.Errorf("unknown mode %q", *mode)
	}
	return nil
}
