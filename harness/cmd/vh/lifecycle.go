package main

// lifecycle: live rig for C06 (every connection end is reported exactly once and leaves nothing).
//
// A real sio.Server (httptest listener) is driven by a scripted raw Engine.IO/Socket.IO client
// (long-polling over ONE keep-alive TCP connection, or websocket, or polling->websocket upgrade)
// through the cutting TCP proxy of verifharness/rigs.  A scenario brings the session to a phase
// {preconnect, middleware, idle, burst, upgrade}, fires a set of termination causes at once (or has
// a byte cut armed from the start), lets the server settle (event-driven waits with generous
// deadlines; nothing is asserted on timing) and records, per server socket that entered the
// namespace middleware: handler counts and reasons (handlers registered in the middleware = before
// admission, and in the connection handler = the documented place), and what the server still
// holds: Namespace.Sockets / FetchSockets / adapter Sockets / SocketRooms / Connected(), and an
// HTTP probe with the old Engine.IO sid.
//
// One JSON line per scenario.

import (
	"context"
	"encoding/json"
	"errors"
	"flag"
	"fmt"
	"io"
	"net"
	"net/http"
	"net/http/httptest"
	"sort"
	"strings"
	"sync"
	"time"

	mapset "github.com/deckarep/golang-set/v2"
	sio "github.com/karagenc/socket.io-go"
	eio "github.com/karagenc/socket.io-go/engine.io"
	"github.com/karagenc/socket.io-go/parser"
	jsonparser "github.com/karagenc/socket.io-go/parser/json"
	"github.com/karagenc/socket.io-go/parser/json/serializer/stdjson"
	"nhooyr.io/websocket"

	"verifharness/rigs"
	"verifharness/vk"
)

func init() { register("lifecycle", lifecycleMain) }

// The server can notice some ends (a cut polling stream, a silent client) only by its ping
// timeout: every "the connection is gone" deadline is derived from the configured ping round
// plus generous slack, and multiplied by lcPatience (-patient: re-runs of a scenario that did
// not settle in time on a loaded machine).
const (
	lcPingInterval = time.Second
	lcPingTimeout  = time.Second
)

var lcPatience = 1

func lcGoneDeadline() time.Duration { return 3*(lcPingInterval+lcPingTimeout) + 6*time.Second }

type lcScenario struct {
	ID     int      `json:"id"`
	Kind   string   `json:"kind"`   // "cause" | "cutbyte"
	Tr     string   `json:"tr"`     // polling | websocket | upgrade
	Phase  string   `json:"phase"`  // preconnect | middleware | idle | burst | upgrade | (cutbyte: reached phase)
	Causes []string `json:"causes"` // injected causes (cause kind)
	CutDir int      `json:"cutdir"` // cutbyte: 0 c2s, 1 s2c
	CutAt  int64    `json:"cutat"`  // cutbyte: byte index
	Nsps   int      `json:"nsps"`   // namespaces the client connects to (1: "/", 2: "/" and "/b")
}

type lcSockRow struct {
	Nsp       string   `json:"nsp"`
	Sid       string   `json:"sid"`
	MwEnter   bool     `json:"mw_enter"`
	MwExit    bool     `json:"mw_exit"`
	Connected bool     `json:"connected"` // the connection handler ran for it
	DiscingM  []string `json:"discing_m"` // reasons seen by the handler registered in the middleware
	DiscM     []string `json:"disc_m"`
	DiscingH  []string `json:"discing_h"` // reasons seen by the handler registered in the connection handler
	DiscH     []string `json:"disc_h"`
	InNsp     bool     `json:"in_nsp"`
	InFetch   bool     `json:"in_fetch"`
	InAdapter bool     `json:"in_adapter"`
	Rooms     []string `json:"rooms"`
	ConnFlag  bool     `json:"conn_flag"`
	OrderOK   bool     `json:"order_ok"` // every disconnecting callback was entered before the disconnect one
	MwAtMs    int64    `json:"mw_at_ms"` // when the middleware was entered (ms since the rig started)
}

type lcRow struct {
	lcScenario
	Fired     []string    `json:"fired"` // causes that actually started (incl. script-generated ones)
	Reached   string      `json:"reached"`
	EioSid    string      `json:"eio_sid"`
	Probe     int         `json:"probe"` // 1 unknown sid (expected), 0 still known, -1 no session was created
	Socks     []lcSockRow `json:"socks"`
	NspCount  int         `json:"nsp_count"` // sockets left in the namespaces' lists (all namespaces)
	AdCount   int         `json:"ad_count"`  // sids left in the adapters
	Settled   bool        `json:"settled"`
	WaitMs    int64       `json:"wait_ms"`
	Bytes     [2]int64    `json:"bytes"`
	ClientErr string      `json:"client_err"`
	EnvFail   string      `json:"env_fail"` // environmental failure (rig could not even start): retried by the check
	Sends     []string    `json:"sends"`    // what the scripted client sent ("ms:packet")
	ReqLog    []string    `json:"reqlog"`   // requests the server saw
}

// ---------------------------------------------------------------- server side of the rig

type lcSock struct {
	nsp, sid                         string
	sock                             sio.ServerSocket
	mwEnter, mwExit, connected       bool
	discingM, discM, discingH, discH []string
	orderBad                         bool
	mwAt                             int64
}

type lcRig struct {
	sc    lcScenario
	io    *sio.Server
	ts    *httptest.Server
	proxy *rigs.Proxy

	mu      sync.Mutex
	socks   []*lcSock
	changed chan struct{} // pulsed on every recorded event

	gateOn  bool
	// "slow close" family: the socket of "/" has a disconnecting handler that blocks (the library
	// waits for those handlers inside the socket's close, i.e. inside the connection's close loop)
	slowOn      bool
	slowEntered chan struct{}
	slowRelease chan struct{}
	slowEnt1    sync.Once
	slowRel1    sync.Once
	gate    chan struct{} // closed = middleware may proceed
	gateOne sync.Once

	t0      time.Time
	reqlog  []string // evidence: requests seen by the server
	sends   []string // debugging: what the scripted client sent, with times
	// "server shutdown during the handshake" family: the construction of the new connection is
	// parked inside a user-supplied callback (Authenticator, or ParserCreator = inside
	// Server.onSocket/newServerConn) while Server.Close runs
	parkArmed   bool
	parkEntered chan struct{}
	parkRelease chan struct{}
	parkEnt1    sync.Once
	parkRel1    sync.Once

	fired   []string
	reached string
	eioSid  string
}

func (r *lcRig) pulse() {
	select {
	case r.changed <- struct{}{}:
	default:
	}
}

func (r *lcRig) release() { r.gateOne.Do(func() { close(r.gate) }) }

func (r *lcRig) releasePark() { r.parkRel1.Do(func() { close(r.parkRelease) }) }

// park blocks the calling server goroutine (once armed) until the test body releases it.
func (r *lcRig) park() {
	r.mu.Lock()
	armed := r.parkArmed
	r.mu.Unlock()
	if !armed {
		return
	}
	r.parkEnt1.Do(func() { close(r.parkEntered) })
	select {
	case <-r.parkRelease:
	case <-time.After(15 * time.Second):
	}
}

func (r *lcRig) releaseSlow() { r.slowRel1.Do(func() { close(r.slowRelease) }) }

func (r *lcRig) fire(c string) {
	r.mu.Lock()
	r.fired = append(r.fired, c)
	r.mu.Unlock()
}

func (r *lcRig) setReached(p string) {
	r.mu.Lock()
	r.reached = p
	r.mu.Unlock()
}

func (r *lcRig) find(nsp string) *lcSock {
	r.mu.Lock()
	defer r.mu.Unlock()
	for _, s := range r.socks {
		if s.nsp == nsp {
			return s
		}
	}
	return nil
}

// waitCond polls cond on every event pulse (and every 20 ms) until it holds or the deadline passes.
func (r *lcRig) waitCond(d time.Duration, cond func() bool) bool {
	deadline := time.Now().Add(d * time.Duration(lcPatience))
	for {
		if cond() {
			return true
		}
		if time.Now().After(deadline) {
			return false
		}
		select {
		case <-r.changed:
		case <-time.After(20 * time.Millisecond):
		}
	}
}

func newLcRig(sc lcScenario) (*lcRig, error) {
	r := &lcRig{sc: sc, changed: make(chan struct{}, 1), gate: make(chan struct{}),
		slowEntered: make(chan struct{}), slowRelease: make(chan struct{}), t0: time.Now(),
		parkEntered: make(chan struct{}), parkRelease: make(chan struct{})}
	r.slowOn = sc.Phase == "slowclose" || sc.Phase == "slowidle"
	cfg := &sio.ServerConfig{
		EIO: eio.ServerConfig{
			PingInterval:   lcPingInterval,
			PingTimeout:    lcPingTimeout,
			UpgradeTimeout: 2 * time.Second,
			WebSocketAcceptOptions: &websocket.AcceptOptions{
				CompressionMode: websocket.CompressionDisabled,
			},
		},
		ConnectTimeout: 60 * time.Second,
	}
	switch sc.Phase {
	case "hsclose-parser":
		inner := jsonparser.NewCreator(0, stdjson.New())
		cfg.ParserCreator = func() parser.Parser { r.park(); return inner() }
	case "hsclose-auth":
		cfg.EIO.Authenticator = func(w http.ResponseWriter, req *http.Request) bool { r.park(); return true }
	}
	for _, c := range sc.Causes {
		if c == "conntimeout" {
			cfg.ConnectTimeout = 1200 * time.Millisecond
		}
	}
	r.io = sio.NewServer(cfg)
	if err := r.io.Run(); err != nil {
		return nil, err
	}
	r.gateOn = sc.Phase == "middleware" || sc.Phase == "slowclose" || sc.Phase == "dupconnect" || sc.Kind == "cutbyte"
	for _, name := range []string{"/", "/b"} {
		name := name
		nsp := r.io.Of(name)
		nsp.Use(func(socket sio.ServerSocket, h *sio.Handshake) any {
			s := &lcSock{nsp: name, sid: string(socket.ID()), sock: socket, mwEnter: true, mwAt: time.Since(r.t0).Milliseconds()}
			r.mu.Lock()
			r.socks = append(r.socks, s)
			r.mu.Unlock()
			socket.OnDisconnecting(func(reason sio.Reason) {
				r.mu.Lock()
				s.discingM = append(s.discingM, string(reason))
				if len(s.discM) > 0 {
					s.orderBad = true
				}
				r.mu.Unlock()
				r.pulse()
			})
			socket.OnDisconnect(func(reason sio.Reason) {
				r.mu.Lock()
				s.discM = append(s.discM, string(reason))
				r.mu.Unlock()
				r.pulse()
			})
			r.pulse()
			if r.gateOn && (sc.Kind == "cutbyte" || name == lcNsps[sc.Nsps-1]) {
				r.holdMiddleware()
			}
			r.mu.Lock()
			s.mwExit = true
			r.mu.Unlock()
			r.pulse()
			return nil
		})
		nsp.OnConnection(func(socket sio.ServerSocket) {
			var s *lcSock
			r.mu.Lock()
			for _, x := range r.socks {
				if x.sid == string(socket.ID()) {
					s = x
				}
			}
			if s == nil { // cannot happen (every socket passes the middleware first); keep it visible
				s = &lcSock{nsp: name, sid: string(socket.ID()), sock: socket}
				r.socks = append(r.socks, s)
			}
			s.connected = true
			r.mu.Unlock()
			socket.OnDisconnecting(func(reason sio.Reason) {
				r.mu.Lock()
				s.discingH = append(s.discingH, string(reason))
				r.mu.Unlock()
				r.pulse()
			})
			socket.OnDisconnect(func(reason sio.Reason) {
				r.mu.Lock()
				s.discH = append(s.discH, string(reason))
				r.mu.Unlock()
				r.pulse()
			})
			if r.slowOn && name == "/" {
				socket.OnDisconnecting(func(reason sio.Reason) {
					r.slowEnt1.Do(func() { close(r.slowEntered) })
					r.pulse()
					select {
					case <-r.slowRelease:
					case <-time.After(7 * time.Second):
					}
				})
			}
			socket.Join("roomA")
			socket.OnEvent("c2s", func(i int) {
				if i == 0 {
					for j := 0; j < 5; j++ {
						socket.Emit("s2c", j)
					}
				}
			})
			r.pulse()
		})
	}
	r.ts = httptest.NewServer(http.HandlerFunc(func(w http.ResponseWriter, req *http.Request) {
		// evidence: every request the server sees ("ms method transport sid bodyprefix")
		var body string
		if req.Method == "POST" && req.Body != nil {
			b, rerr := io.ReadAll(req.Body)
			if rerr != nil { // a cut body: the server must see the same read error after the same bytes
				req.Body = io.NopCloser(io.MultiReader(strings.NewReader(string(b)), lcErrReader{rerr}))
			} else {
				req.Body = io.NopCloser(strings.NewReader(string(b)))
			}
			body = string(b)
			if len(body) > 16 {
				body = body[:16]
			}
		}
		q := req.URL.Query()
		r.mu.Lock()
		if len(r.reqlog) < 60 {
			r.reqlog = append(r.reqlog, fmt.Sprintf("%d %s %s %s %q", time.Since(r.t0).Milliseconds(), req.Method, q.Get("transport"), q.Get("sid"), body))
		}
		r.mu.Unlock()
		r.io.ServeHTTP(w, req)
	}))
	p, err := rigs.NewProxy(strings.TrimPrefix(r.ts.URL, "http://"))
	if err != nil {
		r.ts.Close()
		return nil, err
	}
	r.proxy = p
	return r, nil
}

type lcErrReader struct{ err error }

func (e lcErrReader) Read([]byte) (int, error) { return 0, e.err }

// holdMiddleware: the namespace middleware is the window in which the connection may end.
//   - scenario phase "middleware": hold until the test body releases the gate;
//   - cutbyte scenarios: proceed after a short grace unless the network was cut meanwhile, in which
//     case hold until the test body releases the gate (it does so once the connection has ended).
func (r *lcRig) holdMiddleware() {
	if r.sc.Kind == "cutbyte" {
		select {
		case <-r.gate:
			return
		case <-r.proxy.WasCut():
		case <-time.After(120 * time.Millisecond):
			return
		}
	}
	select {
	case <-r.gate:
	case <-time.After(20 * time.Second):
	}
}

// probe asks the server about the Engine.IO sid without disturbing a live session:
// transport=webtransport never equals the current transport name, so a known sid goes to
// maybeUpgrade, which answers 500 (no transport object) before touching the session; an unknown
// sid gets 400 {"code":1}.
func (r *lcRig) probe() int {
	if r.eioSid == "" {
		return -1
	}
	for attempt := 0; attempt < 6; attempt++ {
		if v := r.probeOnce(); v != 2 {
			return v
		}
		time.Sleep(80 * time.Millisecond)
	}
	return 2
}

var lcProbeClient = &http.Client{Timeout: 5 * time.Second, Transport: &http.Transport{DisableKeepAlives: true}}

// probeOnce: 1 unknown sid, 0 the sid is still served, 2 no answer (environment)
func (r *lcRig) probeOnce() int {
	resp, err := lcProbeClient.Get(r.ts.URL + "/socket.io/?EIO=4&transport=webtransport&sid=" + r.eioSid)
	if err != nil {
		return 2
	}
	defer resp.Body.Close()
	b, _ := io.ReadAll(resp.Body)
	if resp.StatusCode == 503 { // server closed: no session is served any more
		return 1
	}
	var se struct {
		Code int `json:"code"`
	}
	if resp.StatusCode == 400 && json.Unmarshal(b, &se) == nil && se.Code == 1 {
		return 1
	}
	if resp.StatusCode == 500 { // maybeUpgrade to webtransport without a transport object: the sid is known
		return 0
	}
	return 2
}

// ---------------------------------------------------------------- scripted raw client

var errStop = errors.New("stopped")

type lcClient struct {
	r    *lcRig
	hc   *http.Client
	base string
	sid  string
	ws   *websocket.Conn
	wsIn chan string
	ctx  context.Context
	stop context.CancelFunc
	mute bool // "pingto": no more pongs, no more polls
	mu   sync.Mutex
}

func newLcClient(r *lcRig) *lcClient {
	d := &net.Dialer{Timeout: 3 * time.Second}
	addr := r.proxy.Addr()
	tr := &http.Transport{
		DialContext: func(ctx context.Context, network, _ string) (net.Conn, error) {
			return d.DialContext(ctx, network, addr)
		},
		DisableCompression:  true,
		MaxIdleConnsPerHost: 1,
	}
	ctx, cancel := context.WithCancel(context.Background())
	return &lcClient{r: r, hc: &http.Client{Transport: tr, Timeout: 15 * time.Second},
		base: "http://" + addr + "/socket.io/?EIO=4", ctx: ctx, stop: cancel}
}

func (c *lcClient) isMute() bool {
	c.mu.Lock()
	defer c.mu.Unlock()
	return c.mute
}

func (c *lcClient) pollGet() ([]string, error) {
	if c.isMute() {
		return nil, errStop
	}
	u := c.base + "&transport=polling"
	if c.sid != "" {
		u += "&sid=" + c.sid
	}
	req, _ := http.NewRequestWithContext(c.ctx, "GET", u, nil)
	resp, err := c.hc.Do(req)
	if err != nil {
		return nil, err
	}
	defer resp.Body.Close()
	b, err := io.ReadAll(resp.Body)
	if err != nil {
		return nil, err
	}
	if resp.StatusCode != 200 {
		return nil, fmt.Errorf("GET status %d %s", resp.StatusCode, b)
	}
	return strings.Split(string(b), "\x1e"), nil
}

func (c *lcClient) pollPost(body string) error {
	if c.isMute() {
		return errStop
	}
	req, _ := http.NewRequestWithContext(c.ctx, "POST", c.base+"&transport=polling&sid="+c.sid, strings.NewReader(body))
	req.Header.Set("Content-Type", "text/plain;charset=UTF-8")
	resp, err := c.hc.Do(req)
	if err != nil {
		return err
	}
	defer resp.Body.Close()
	b, _ := io.ReadAll(resp.Body)
	if resp.StatusCode != 200 {
		return fmt.Errorf("POST status %d %s", resp.StatusCode, b)
	}
	return nil
}

func (c *lcClient) handshakePolling() error {
	pk, err := c.pollGet()
	if err != nil {
		return err
	}
	return c.parseOpen(pk[0])
}

func (c *lcClient) parseOpen(p string) error {
	if len(p) == 0 || p[0] != '0' {
		return fmt.Errorf("no open packet: %q", p)
	}
	var h struct {
		Sid string `json:"sid"`
	}
	if err := json.Unmarshal([]byte(p[1:]), &h); err != nil {
		return err
	}
	c.sid = h.Sid
	c.r.mu.Lock()
	c.r.eioSid = h.Sid
	c.r.mu.Unlock()
	return nil
}

func (c *lcClient) dialWS(withSid bool) error {
	u := "ws://" + c.r.proxy.Addr() + "/socket.io/?EIO=4&transport=websocket"
	if withSid {
		u += "&sid=" + c.sid
	}
	ctx, cancel := context.WithTimeout(c.ctx, 5*time.Second)
	defer cancel()
	conn, _, err := websocket.Dial(ctx, u, &websocket.DialOptions{HTTPClient: c.hc, CompressionMode: websocket.CompressionDisabled})
	if err != nil {
		return err
	}
	conn.SetReadLimit(1 << 20)
	c.ws = conn
	c.wsIn = make(chan string, 256)
	go func() {
		defer close(c.wsIn)
		for {
			_, b, err := conn.Read(c.ctx)
			if err != nil {
				return
			}
			s := string(b)
			if s == "2" {
				if !c.isMute() {
					conn.Write(c.ctx, websocket.MessageText, []byte("3"))
				}
				continue
			}
			if c.isMute() {
				continue
			}
			c.wsIn <- s
		}
	}()
	return nil
}

// send one Engine.IO packet (text) on the current transport.
func (c *lcClient) send(p string) error {
	c.r.mu.Lock()
	c.r.sends = append(c.r.sends, fmt.Sprintf("%d:%s", time.Since(c.r.t0).Milliseconds(), p))
	c.r.mu.Unlock()
	if c.ws != nil {
		if c.isMute() {
			return errStop
		}
		ctx, cancel := context.WithTimeout(c.ctx, 5*time.Second)
		defer cancel()
		return c.ws.Write(ctx, websocket.MessageText, []byte(p))
	}
	return c.pollPost(p)
}

// waitPacket receives until a packet with the given prefix arrives n times (answers pings).
func (c *lcClient) waitPacket(prefix string, n int, d time.Duration) error {
	deadline := time.Now().Add(d)
	got := 0
	for got < n {
		if time.Now().After(deadline) {
			return fmt.Errorf("timeout waiting for %q", prefix)
		}
		if c.ws != nil {
			select {
			case s, ok := <-c.wsIn:
				if !ok {
					return fmt.Errorf("websocket closed")
				}
				if strings.HasPrefix(s, prefix) {
					got++
				}
			case <-time.After(time.Until(deadline)):
			case <-c.ctx.Done():
				return errStop
			}
			continue
		}
		pk, err := c.pollGet()
		if err != nil {
			return err
		}
		for _, p := range pk {
			switch {
			case p == "2":
				if err := c.pollPost("3"); err != nil {
					return err
				}
			case p == "1":
				return fmt.Errorf("server closed the session")
			case strings.HasPrefix(p, prefix):
				got++
			}
		}
	}
	return nil
}

// keepAlive keeps an idle polling session alive (polls and answers pings) until ctx ends.
func (c *lcClient) keepAlive(ctx context.Context) {
	if c.ws != nil {
		<-ctx.Done()
		return
	}
	for ctx.Err() == nil && !c.isMute() {
		req, _ := http.NewRequestWithContext(ctx, "GET", c.base+"&transport=polling&sid="+c.sid, nil)
		resp, err := c.hc.Do(req)
		if err != nil {
			return
		}
		b, _ := io.ReadAll(resp.Body)
		resp.Body.Close()
		if resp.StatusCode != 200 {
			return
		}
		for _, p := range strings.Split(string(b), "\x1e") {
			if p == "2" && ctx.Err() == nil && !c.isMute() {
				if c.pollPost("3") != nil {
					return
				}
			}
			if p == "1" {
				return
			}
		}
	}
}

func nspPrefix(nsp string) string {
	if nsp == "/" {
		return ""
	}
	return nsp + ","
}

// ---------------------------------------------------------------- scenario body

var lcNsps = []string{"/", "/b"}

func (r *lcRig) run() (row lcRow) {
	sc := r.sc
	row.lcScenario = sc
	start := time.Now()
	c := newLcClient(r)
	defer func() {
		r.release()
		r.releaseSlow()
		r.releasePark()
		go func() { // tear down in the background: ts.Close waits for parked long-polls
			r.io.Close()
			c.stop()
			r.proxy.Close()
			r.ts.Close()
		}()
	}()

	if sc.Kind == "cutbyte" {
		r.proxy.CutAfter(rigs.Dir(sc.CutDir), sc.CutAt)
	}

	var keepCancel context.CancelFunc = func() {}
	script := func() error {
		r.setReached("start")
		if strings.HasPrefix(sc.Phase, "hsclose") {
			return r.scriptHandshakeClose(c)
		}
		// --- open
		if sc.Tr == "websocket" {
			if err := c.dialWS(false); err != nil {
				return err
			}
			select {
			case s, ok := <-c.wsIn:
				if !ok {
					return fmt.Errorf("websocket closed before open")
				}
				if err := c.parseOpen(s); err != nil {
					return err
				}
			case <-time.After(5 * time.Second):
				return fmt.Errorf("no open packet")
			}
		} else if err := c.handshakePolling(); err != nil {
			return err
		}
		r.setReached("preconnect")
		if sc.Phase == "preconnect" {
			return nil
		}
		if sc.Phase == "dupconnect" {
			// two CONNECT packets for the same namespace whose processing overlaps: every packet is
			// handled on its own goroutine, the namespace middleware holds both until both are in
			if c.ws != nil {
				if err := c.send("40"); err != nil {
					return err
				}
				if err := c.send("40"); err != nil {
					return err
				}
			} else if err := c.send("40\x1e40"); err != nil {
				return err
			}
			if !r.waitCond(5*time.Second, func() bool {
				r.mu.Lock()
				defer r.mu.Unlock()
				return len(r.socks) >= 2
			}) {
				return fmt.Errorf("the two CONNECTs did not both reach the middleware")
			}
			r.setReached("middleware")
			r.release()
			if err := c.waitPacket("40", 2, 6*time.Second); err != nil {
				return err
			}
			if !r.waitCond(5*time.Second, func() bool {
				r.mu.Lock()
				defer r.mu.Unlock()
				n := 0
				for _, s := range r.socks {
					if s.connected {
						n++
					}
				}
				return n >= 2
			}) {
				return fmt.Errorf("connection handlers did not run for both sockets")
			}
			r.setReached("idle")
			kctx, kc := context.WithCancel(c.ctx)
			keepCancel = kc
			go c.keepAlive(kctx)
			return nil
		}
		// --- CONNECT to the namespaces
		for i := 0; i < sc.Nsps; i++ {
			if err := c.send("40" + nspPrefix(lcNsps[i])); err != nil {
				return err
			}
			nsp := lcNsps[i]
			if !r.waitCond(5*time.Second, func() bool { s := r.find(nsp); return s != nil }) {
				return fmt.Errorf("middleware not entered")
			}
			r.setReached("middleware")
			if (sc.Phase == "middleware" || sc.Phase == "slowclose") && i == sc.Nsps-1 {
				return nil
			}
			if err := c.waitPacket("40"+nspPrefix(nsp), 1, 6*time.Second); err != nil {
				return err
			}
			if !r.waitCond(5*time.Second, func() bool {
				s := r.find(nsp)
				r.mu.Lock()
				defer r.mu.Unlock()
				return s.connected
			}) {
				return fmt.Errorf("connection handler did not run")
			}
		}
		r.setReached("idle")
		if sc.Phase == "upgrade" || (sc.Kind == "cutbyte" && sc.Tr == "upgrade") {
			// polling -> websocket upgrade: probe, (cause here), upgrade packet
			if err := c.dialWS(true); err != nil {
				return err
			}
			ws := c.ws
			c.ws = nil // the main transport is still polling
			ctx, cancel := context.WithTimeout(c.ctx, 5*time.Second)
			err := ws.Write(ctx, websocket.MessageText, []byte("2probe"))
			cancel()
			if err != nil {
				return err
			}
			// a poll is pending on the server? no: scripted client polls only on demand; the server
			// sends a NOOP to release a pending poll, which we simply receive with the next GET.
			select {
			case s, ok := <-c.wsIn:
				if !ok || s != "3probe" {
					return fmt.Errorf("bad probe answer %q", s)
				}
			case <-time.After(5 * time.Second):
				return fmt.Errorf("no probe answer")
			}
			r.setReached("upgrade")
			if sc.Phase == "upgrade" {
				// leave the upgrade half-done: the cause is fired in this window
				c.ws = nil
				return nil
			}
			ctx, cancel = context.WithTimeout(c.ctx, 5*time.Second)
			err = ws.Write(ctx, websocket.MessageText, []byte("5"))
			cancel()
			if err != nil {
				return err
			}
			c.ws = ws
			r.setReached("upgraded")
		}
		if sc.Phase == "dupseq" {
			// a second CONNECT for a namespace the connection has already joined: "invalid state"
			r.fire("invalid")
			c.send("40")
			return nil
		}
		if sc.Phase == "idle" || sc.Phase == "slowidle" {
			kctx, kc := context.WithCancel(c.ctx)
			keepCancel = kc
			go c.keepAlive(kctx)
			return nil
		}
		// --- burst: client -> server, then server -> client
		if err := c.send(`42["c2s",0]`); err != nil {
			return err
		}
		r.setReached("burst")
		if sc.Phase == "burst" {
			return nil
		}
		for i := 1; i < 3; i++ {
			if err := c.send(fmt.Sprintf(`42["c2s",%d]`, i)); err != nil {
				return err
			}
		}
		if err := c.waitPacket(`42["s2c"`, 5, 6*time.Second); err != nil {
			return err
		}
		// --- clean end of the scripted session (cutbyte sessions only)
		r.setReached("closing")
		r.fire("cdisc")
		if err := c.send("41"); err != nil {
			return err
		}
		r.fire("eioclose")
		if err := c.send("1"); err != nil {
			return err
		}
		r.setReached("closed")
		return nil
	}
	err := script()
	if err != nil {
		row.ClientErr = err.Error()
	}
	if sc.Kind == "cutbyte" {
		if r.proxy.IsCut() {
			r.fire("cut")
		}
	} else if err != nil {
		// the rig did not reach the phase: environmental, the check retries
		row.EnvFail = "script: " + err.Error()
	}

	// --- fire the causes, all at once
	if sc.Kind == "cause" && err == nil && !strings.HasPrefix(sc.Phase, "hsclose") && sc.Phase != "dupseq" {
		var wg sync.WaitGroup
		go1 := make(chan struct{})
		for _, cause := range sc.Causes {
			cause := cause
			r.fire(cause)
			wg.Add(1)
			go func() {
				defer wg.Done()
				<-go1
				r.inject(c, cause, keepCancel)
			}()
		}
		close(go1)
		if r.slowOn {
			// a server-side cause (Disconnect, Server.Close) is itself parked in the slow handler
			go wg.Wait()
			time.Sleep(30 * time.Millisecond)
		} else {
			wg.Wait()
		}
	}

	if r.slowOn && row.EnvFail == "" {
		// the close of "/" is parked in its disconnecting handler: now the other namespace's
		// middleware returns (admission while the connection's close loop is busy), then the handler
		r.waitCond(lcGoneDeadline(), func() bool {
			select {
			case <-r.slowEntered:
				return true
			default:
				return false
			}
		})
		r.release()
		r.waitCond(3*time.Second, func() bool {
			r.mu.Lock()
			defer r.mu.Unlock()
			for _, s := range r.socks {
				if !s.mwExit || !s.connected {
					return false
				}
			}
			return true
		})
		time.Sleep(100 * time.Millisecond)
		r.releaseSlow()
	}

	connLevel := false
	r.mu.Lock()
	for _, f := range r.fired {
		if f != "cdisc" && f != "sdisc0" {
			connLevel = true
		}
	}
	r.mu.Unlock()
	if row.EnvFail == "" && !connLevel {
		// namespace-only end: wait for its report, then the client ends the connection cleanly
		r.waitCond(6*time.Second, func() bool {
			r.mu.Lock()
			defer r.mu.Unlock()
			any := false
			for _, s := range r.socks {
				if s.nsp != "/" {
					continue
				}
				any = true
				if !s.connected || len(s.discM) > 0 {
					return true
				}
			}
			return !any
		})
		keepCancel()
		time.Sleep(30 * time.Millisecond)
		c.mu.Lock()
		c.mute = false
		c.mu.Unlock()
		r.fire("eioclose")
		if e := c.send("1"); e != nil && row.ClientErr == "" {
			row.ClientErr = "final close: " + e.Error()
		}
	}

	// --- settle: the connection is gone for the server ...
	gone := r.waitCond(lcGoneDeadline(), func() bool { return r.eioSid == "" || r.probeOnce() == 1 })
	// ... then let a held middleware go on (admission after the end of the connection) ...
	r.release()
	admitted := r.waitCond(3*time.Second, func() bool {
		r.mu.Lock()
		defer r.mu.Unlock()
		for _, s := range r.socks {
			if !s.mwExit {
				return false
			}
		}
		return true
	})
	time.Sleep(150 * time.Millisecond) // doConnect + connection handler goroutine after the middleware
	// ... and every socket that connected reports its end (deadline generous; only a leak waits it out)
	reported := r.waitCond(6*time.Second, func() bool { return r.allReported(true) })
	time.Sleep(120 * time.Millisecond) // a duplicate report would arrive now
	row.Settled = gone && admitted && reported
	row.WaitMs = time.Since(start).Milliseconds()

	// --- observe
	row.Probe = r.probe()
	if row.Probe == 2 {
		row.EnvFail = "probe: no answer from the test server"
	}
	row.EioSid = r.eioSid
	r.mu.Lock()
	row.Fired = append([]string{}, r.fired...)
	row.Sends = append([]string{}, r.sends...)
	row.ReqLog = append([]string{}, r.reqlog...)
	row.Reached = r.reached
	socks := append([]*lcSock{}, r.socks...)
	r.mu.Unlock()
	empty := mapset.NewSet[sio.Room]()
	for _, name := range lcNsps {
		nsp := r.io.Of(name)
		row.NspCount += len(nsp.Sockets())
		row.AdCount += nsp.Adapter().Sockets(empty).Cardinality()
	}
	for _, s := range socks {
		nsp := r.io.Of(s.nsp)
		sr := lcSockRow{Nsp: s.nsp, Sid: s.sid, MwAtMs: s.mwAt}
		r.mu.Lock()
		sr.MwEnter, sr.MwExit, sr.Connected = s.mwEnter, s.mwExit, s.connected
		sr.DiscingM = append([]string{}, s.discingM...)
		sr.DiscM = append([]string{}, s.discM...)
		sr.DiscingH = append([]string{}, s.discingH...)
		sr.DiscH = append([]string{}, s.discH...)
		sr.OrderOK = !s.orderBad
		r.mu.Unlock()
		for _, x := range nsp.Sockets() {
			if string(x.ID()) == s.sid {
				sr.InNsp = true
			}
		}
		for _, x := range nsp.FetchSockets() {
			if string(x.ID()) == s.sid {
				sr.InFetch = true
			}
		}
		sr.InAdapter = nsp.Adapter().Sockets(empty).Contains(sio.SocketID(s.sid))
		sr.Rooms = []string{}
		if rooms, ok := nsp.Adapter().SocketRooms(sio.SocketID(s.sid)); ok {
			for _, x := range rooms.ToSlice() {
				if string(x) == s.sid {
					sr.Rooms = append(sr.Rooms, "<own>")
				} else {
					sr.Rooms = append(sr.Rooms, string(x))
				}
			}
			sort.Strings(sr.Rooms)
		}
		sr.ConnFlag = s.sock.Connected()
		row.Socks = append(row.Socks, sr)
	}
	row.Bytes[0], row.Bytes[1] = r.proxy.Bytes()
	return row
}

// scriptHandshakeClose: the client opens a session; the server parks its construction in a user
// callback; Server.Close runs meanwhile; the construction goes on; the client then sends CONNECT on
// whatever it got.  Afterwards nothing may be left and no socket may be connected unreported.
func (r *lcRig) scriptHandshakeClose(c *lcClient) error {
	r.mu.Lock()
	r.parkArmed = true
	r.mu.Unlock()
	opened := make(chan error, 1)
	go func() {
		if r.sc.Tr == "websocket" {
			if err := c.dialWS(false); err != nil {
				opened <- err
				return
			}
			select {
			case s, ok := <-c.wsIn:
				if !ok {
					opened <- fmt.Errorf("websocket closed before open")
					return
				}
				opened <- c.parseOpen(s)
			case <-time.After(8 * time.Second):
				opened <- fmt.Errorf("no open packet")
			}
			return
		}
		opened <- c.handshakePolling()
	}()
	select {
	case <-r.parkEntered:
	case <-time.After(8 * time.Second):
		return fmt.Errorf("server callback not reached")
	}
	r.setReached("parked")
	r.fire("srvclose")
	r.io.Close()
	r.releasePark()
	var err error
	select {
	case err = <-opened:
	case <-time.After(10 * time.Second):
		err = fmt.Errorf("open did not return")
	}
	r.setReached("opened")
	if err != nil {
		return nil // the handshake was refused / the transport closed: the expected outcome
	}
	// a session came out of it: use it
	if e := c.send("40"); e == nil {
		c.waitPacket("40", 1, 1500*time.Millisecond)
	}
	r.setReached("connect-sent")
	return nil
}

// allReported: every socket whose connection handler ran has seen its disconnect handler
// (middleware-registered one; strict also wants sockets that are still being admitted to finish).
func (r *lcRig) allReported(strict bool) bool {
	r.mu.Lock()
	defer r.mu.Unlock()
	for _, s := range r.socks {
		if s.connected && len(s.discM) == 0 {
			return false
		}
		if strict && s.mwExit && !s.connected && s.sock.Connected() {
			return false
		}
	}
	return true
}

func (r *lcRig) inject(c *lcClient, cause string, keepCancel func()) {
	first := r.find("/")
	switch cause {
	case "cdisc": // client DISCONNECT packet for "/"
		c.send("41")
	case "eioclose": // client closes the Engine.IO session
		c.send("1")
	case "sdisc0":
		if first != nil {
			first.sock.Disconnect(false)
		}
	case "sdisc1":
		if first != nil {
			first.sock.Disconnect(true)
		}
	case "srvclose":
		r.io.Close()
	case "parse": // undecodable Socket.IO packet
		c.send("49zzz")
	case "invalid": // event for a namespace the client is not connected to
		c.send(`42/zz,["x"]`)
	case "pingto": // client goes silent, TCP stays open
		c.mu.Lock()
		c.mute = true
		c.mu.Unlock()
		keepCancel()
	case "conntimeout": // nothing to do: the server's connect timer runs
	case "cut":
		r.proxy.CutNow()
	}
}

// ---------------------------------------------------------------- scenario generation

var lcCausesAll = []string{"cdisc", "eioclose", "sdisc0", "sdisc1", "srvclose", "parse", "invalid", "pingto", "cut"}

func lcApplicable(phase, cause string) bool {
	switch phase {
	case "preconnect":
		return cause != "cdisc" && cause != "sdisc0" && cause != "sdisc1"
	case "middleware":
		return cause != "sdisc0" && cause != "sdisc1"
	default:
		return cause != "conntimeout"
	}
}

func lcScenarios(tier string, seed uint64, stride int) []lcScenario {
	var out []lcScenario
	add := func(s lcScenario) { s.ID = len(out); out = append(out, s) }
	// single causes x phases x transports
	for _, tr := range []string{"polling", "websocket"} {
		for _, ph := range []string{"preconnect", "middleware", "idle", "burst"} {
			for _, cause := range append(append([]string{}, lcCausesAll...), "conntimeout") {
				if lcApplicable(ph, cause) {
					add(lcScenario{Kind: "cause", Tr: tr, Phase: ph, Causes: []string{cause}, Nsps: 1, CutAt: -1})
				}
			}
		}
	}
	for _, cause := range lcCausesAll {
		add(lcScenario{Kind: "cause", Tr: "upgrade", Phase: "upgrade", Causes: []string{cause}, Nsps: 1, CutAt: -1})
	}
	// two namespaces on one connection
	for _, ph := range []string{"middleware", "idle"} {
		for _, cause := range []string{"cdisc", "sdisc0", "sdisc1", "eioclose", "cut", "srvclose", "invalid"} {
			if lcApplicable(ph, cause) {
				add(lcScenario{Kind: "cause", Tr: "websocket", Phase: ph, Causes: []string{cause}, Nsps: 2, CutAt: -1})
			}
		}
	}
	// the close of one socket is slow (blocking disconnecting handler on "/") while the other
	// namespace of the same connection is still in its middleware / already connected
	for _, tr := range []string{"polling", "websocket"} {
		for _, ph := range []string{"slowclose", "slowidle"} {
			for _, cause := range lcCausesAll {
				add(lcScenario{Kind: "cause", Tr: tr, Phase: ph, Causes: []string{cause}, Nsps: 2, CutAt: -1})
			}
		}
	}
	// duplicate CONNECT for one namespace on one connection: overlapping (both held in the middleware,
	// both admitted: two sockets) x every cause; sequential (the second one is an invalid-state packet)
	for _, tr := range []string{"polling", "websocket"} {
		for _, cause := range lcCausesAll {
			add(lcScenario{Kind: "cause", Tr: tr, Phase: "dupconnect", Causes: []string{cause}, Nsps: 1, CutAt: -1})
		}
		add(lcScenario{Kind: "cause", Tr: tr, Phase: "dupseq", Causes: []string{"invalid"}, Nsps: 1, CutAt: -1})
	}
	// Server.Close while a new connection is being constructed (parked in the Authenticator, or in
	// the ParserCreator = inside the new-socket callback), then CONNECT on whatever came out
	for _, tr := range []string{"polling", "websocket"} {
		for _, ph := range []string{"hsclose-parser", "hsclose-auth"} {
			add(lcScenario{Kind: "cause", Tr: tr, Phase: ph, Causes: []string{"srvclose"}, Nsps: 1, CutAt: -1})
		}
	}
	// several causes at once (seeded subsets of size 2..4)
	rnd := vk.NewRand(seed)
	nMulti := 36
	if tier == "thorough" {
		nMulti = 200
	}
	for i := 0; i < nMulti; i++ {
		ph := []string{"idle", "idle", "burst", "middleware", "preconnect"}[rnd.Intn(5)]
		tr := []string{"polling", "websocket"}[rnd.Intn(2)]
		k := 2 + rnd.Intn(3)
		var cs []string
		for len(cs) < k {
			cand := lcCausesAll[rnd.Intn(len(lcCausesAll))]
			dup := false
			for _, x := range cs {
				if x == cand {
					dup = true
				}
			}
			if !dup && lcApplicable(ph, cand) {
				cs = append(cs, cand)
			}
		}
		sort.Strings(cs)
		add(lcScenario{Kind: "cause", Tr: tr, Phase: ph, Causes: cs, Nsps: 1 + rnd.Intn(2), CutAt: -1})
	}
	// byte cuts of the scripted sessions: every stride-th byte, both directions
	lens := lcCalibrate()
	off := int64(rnd.Intn(stride))
	for ti, tr := range []string{"polling", "websocket", "upgrade"} {
		for d := 0; d < 2; d++ {
			for k := off % int64(stride); k <= lens[ti][d]+8; k += int64(stride) {
				add(lcScenario{Kind: "cutbyte", Tr: tr, Phase: "session", CutDir: d, CutAt: k, Nsps: 1})
			}
		}
	}
	return out
}

// lcCalibrate runs each scripted session once without a cut and returns its byte counts.
func lcCalibrate() [3][2]int64 {
	var res [3][2]int64
	var wg sync.WaitGroup
	for ti, tr := range []string{"polling", "websocket", "upgrade"} {
		ti, tr := ti, tr
		wg.Add(1)
		go func() {
			defer wg.Done()
			for attempt := 0; attempt < 3; attempt++ {
				r, err := newLcRig(lcScenario{Kind: "cutbyte", Tr: tr, Phase: "session", CutDir: 0, CutAt: 1 << 40, Nsps: 1})
				if err != nil {
					continue
				}
				row := r.run()
				if row.Reached == "closed" {
					res[ti] = row.Bytes
					return
				}
			}
			res[ti] = [2]int64{1500, 1500}
		}()
	}
	wg.Wait()
	return res
}

func lifecycleMain(args []string) error {
	fs := flag.NewFlagSet("lifecycle", flag.ExitOnError)
	seed := fs.Uint64("seed", 1, "")
	tier := fs.String("tier", "quick", "")
	stride := fs.Int("stride", 48, "byte-cut stride")
	par := fs.Int("par", 48, "scenarios in flight")
	only := fs.String("only", "", "JSON scenario to run alone (replay)")
	list := fs.Bool("list", false, "print the scenarios only")
	phase := fs.String("phase", "", "run only the scenarios of this phase (debugging)")
	patient := fs.Bool("patient", false, "triple every deadline (re-run of a scenario that did not settle)")
	outp := fs.String("out", "-", "")
	fs.Parse(args)
	out, err := vk.NewOut(*outp)
	if err != nil {
		return err
	}
	defer out.Close()

	if *patient {
		lcPatience = 3
	}
	var scs []lcScenario
	if *only != "" {
		var s lcScenario
		if err := json.Unmarshal([]byte(*only), &s); err != nil {
			return err
		}
		scs = []lcScenario{s}
	} else {
		scs = lcScenarios(*tier, *seed, *stride)
	}
	if *phase != "" {
		var sel []lcScenario
		for _, s := range scs {
			if s.Phase == *phase {
				sel = append(sel, s)
			}
		}
		scs = sel
	}
	if *list {
		for _, s := range scs {
			out.Put(s)
		}
		return nil
	}
	sem := make(chan struct{}, *par)
	var wg sync.WaitGroup
	for _, s := range scs {
		s := s
		wg.Add(1)
		sem <- struct{}{}
		go func() {
			defer wg.Done()
			defer func() { <-sem }()
			var row lcRow
			for attempt := 0; attempt < 3; attempt++ {
				r, err := newLcRig(s)
				if err != nil {
					row = lcRow{lcScenario: s, EnvFail: "rig: " + err.Error()}
					continue
				}
				row = r.run()
				if row.EnvFail == "" {
					break
				}
			}
			out.Put(row)
		}()
	}
	wg.Wait()
	return nil
}
