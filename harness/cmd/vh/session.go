package main

// session: drives the REAL session-aware adapter (connection state recovery) through histories of
// Broadcast / PersistSession / cleaner pass / RestoreSession / time steps and records, after every
// operation, what the adapter did (C08).  The adapter is built with the verif constructor
// (recovery window and clean-up period exposed); the clean-up goroutine is the real one, parked at
// the `session-cleaner` yield point and released for exactly one pass where the history says so.
//
// Time: the adapter reads the wall clock.  A history carries abstract times (ticks); the harness
// sleeps to the tick boundaries and checks after every operation that it ran within `margin` of
// its abstract time (else the case is marked late = indeterminate).  The window is an odd number
// of half ticks, so every comparison the adapter makes is at least half a tick away from flipping.

import (
	"bytes"
	"encoding/json"
	"flag"
	"fmt"
	"runtime"
	"sort"
	"strconv"
	"sync"
	"time"

	"github.com/karagenc/socket.io-go/adapter"
	"github.com/karagenc/socket.io-go/parser"
	jsonparser "github.com/karagenc/socket.io-go/parser/json"
	"github.com/karagenc/socket.io-go/parser/json/serializer/stdjson"

	"verifharness/vk"
)

func init() { register("session", sessionMain) }

// ---------------------------------------------------------------- cleaner gate

type cleanerGate struct {
	arrived chan struct{}
	grant   chan struct{}
}

var (
	gateMu      sync.Mutex
	gateByGoid  = map[uint64]*cleanerGate{}
	gatePending *cleanerGate
	gateCreate  sync.Mutex // serialises adapter creation (first arrival identifies the goroutine)
	gateOnce    sync.Once
)

func goid() uint64 {
	var buf [64]byte
	n := runtime.Stack(buf[:], false)
	// "goroutine 123 [running]:"
	f := bytes.Fields(buf[:n])
	if len(f) < 2 {
		return 0
	}
	id, _ := strconv.ParseUint(string(f[1]), 10, 64)
	return id
}

func installGate() {
	gateOnce.Do(func() {
		adapter.VerifSetYieldHandler(func(point string) {
			if point != "session-cleaner" {
				return
			}
			id := goid()
			gateMu.Lock()
			g := gateByGoid[id]
			if g == nil {
				g = gatePending
				gatePending = nil
				if g != nil {
					gateByGoid[id] = g
				}
			}
			gateMu.Unlock()
			if g == nil {
				select {} // a cleaner nobody asked for: park it for good
			}
			g.arrived <- struct{}{}
			<-g.grant
		})
	})
}

// newGatedAdapter builds a session-aware adapter whose cleaner is parked at the yield point.
func newGatedAdapter(window time.Duration, store adapter.SocketStore) (adapter.Adapter, *cleanerGate) {
	return newGatedAdapterWith(window, store, jsonparser.NewCreator(0, stdjson.New()))
}

func newGatedAdapterWith(window time.Duration, store adapter.SocketStore, pc parser.Creator) (adapter.Adapter, *cleanerGate) {
	installGate()
	g := &cleanerGate{arrived: make(chan struct{}), grant: make(chan struct{})}
	gateCreate.Lock()
	defer gateCreate.Unlock()
	gateMu.Lock()
	gatePending = g
	gateMu.Unlock()
	creator := adapter.NewSessionAwareAdapterCreatorVerif(window, time.Nanosecond)
	a := creator(store, pc)
	<-g.arrived
	return a, g
}

// pass lets the real cleaner goroutine run exactly one pass and waits until it is parked again.
func (g *cleanerGate) pass() {
	g.grant <- struct{}{}
	<-g.arrived
}

// ---------------------------------------------------------------- recording socket store

type recSocket struct{ id adapter.SocketID }

func (s *recSocket) ID() adapter.SocketID                                   { return s.id }
func (s *recSocket) Join(room ...adapter.Room)                              {}
func (s *recSocket) Leave(room adapter.Room)                                {}
func (s *recSocket) Emit(eventName string, v ...any)                        {}
func (s *recSocket) To(room ...adapter.Room) *adapter.BroadcastOperator     { return nil }
func (s *recSocket) In(room ...adapter.Room) *adapter.BroadcastOperator     { return nil }
func (s *recSocket) Except(room ...adapter.Room) *adapter.BroadcastOperator { return nil }
func (s *recSocket) Broadcast() *adapter.BroadcastOperator                  { return nil }
func (s *recSocket) Disconnect(close bool)                                  {}

type recStore struct {
	hook    func(sid adapter.SocketID) // called (without the lock) at the start of every delivery
	mu      sync.Mutex
	sockets map[adapter.SocketID]*recSocket
	got     map[adapter.SocketID][][]byte // first buffer of every delivery
}

func newRecStore() *recStore {
	return &recStore{sockets: map[adapter.SocketID]*recSocket{}, got: map[adapter.SocketID][][]byte{}}
}
func (r *recStore) SendBuffers(sid adapter.SocketID, buffers [][]byte) bool {
	if r.hook != nil {
		r.hook(sid)
	}
	r.mu.Lock()
	defer r.mu.Unlock()
	if _, ok := r.sockets[sid]; !ok {
		return false
	}
	if len(buffers) > 0 {
		r.got[sid] = append(r.got[sid], append([]byte(nil), buffers[0]...))
	}
	return true
}
func (r *recStore) Get(sid adapter.SocketID) (adapter.Socket, bool) {
	r.mu.Lock()
	defer r.mu.Unlock()
	s, ok := r.sockets[sid]
	if !ok {
		return nil, false
	}
	return s, true
}
func (r *recStore) GetAll() []adapter.Socket {
	r.mu.Lock()
	defer r.mu.Unlock()
	var l []adapter.Socket
	for _, s := range r.sockets {
		l = append(l, s)
	}
	return l
}
func (r *recStore) Remove(sid adapter.SocketID) {
	r.mu.Lock()
	defer r.mu.Unlock()
	delete(r.sockets, sid)
}
func (r *recStore) take(sid adapter.SocketID) [][]byte {
	r.mu.Lock()
	defer r.mu.Unlock()
	g := r.got[sid]
	delete(r.got, sid)
	return g
}

// ---------------------------------------------------------------- histories

// sessOp is one operation of a history together with what the implementation did.
//
//	B  broadcast: rooms/except, kind 0 = EVENT without ack id, 1 = EVENT with ack id, 2 = ACK packet
//	P  persist session {sid,pid,rooms}
//	C  one clean-up pass
//	R  restore pid with offset = id logged by the op with index `off` (-1: an id nobody has, -2: "")
//	T  let `dt` ticks pass
type sessOp struct {
	Op     string `json:"op"`
	Rooms  []int  `json:"rooms,omitempty"`
	Except []int  `json:"except,omitempty"`
	Kind   int    `json:"kind,omitempty"`
	Sid    int    `json:"sid,omitempty"`
	Pid    int    `json:"pid,omitempty"`
	Off    int    `json:"off,omitempty"`
	Dt     int    `json:"dt,omitempty"`

	// observations
	At     int      `json:"at"`               // abstract time (ticks) at which the op ran
	Logged bool     `json:"logged,omitempty"` // B: the log grew by one entry
	ID     string   `json:"id,omitempty"`     // B: id of that entry
	Wit    int      `json:"wit,omitempty"`    // B: deliveries to the witness socket (0/1/...)
	WitID  string   `json:"witid,omitempty"`  // B: last argument seen by the witness (if a string)
	WitN   int      `json:"witn,omitempty"`   // B: number of arguments seen by the witness
	OffID  string   `json:"offid"`            // R: the offset string presented
	Ok     bool     `json:"ok,omitempty"`     // R
	RSid   int      `json:"rsid,omitempty"`   // R
	RPid   int      `json:"rpid,omitempty"`   // R
	RRooms []int    `json:"rrooms,omitempty"` // R (order as returned)
	Missed []string `json:"missed"`           // R: ids of the missed packets, in order
	Log    []string `json:"log"`              // ids in the packet log after the op
	Pids   []int    `json:"pids"`             // pids of the stored sessions after the op (sorted)
}

type sessCase struct {
	Suite    string   `json:"suite"`
	W        int      `json:"w"`    // recovery window in half ticks (odd when timed)
	Tick     int      `json:"tick"` // tick length in ms (0 = untimed history: window is an hour)
	WitRooms []int    `json:"witrooms"`
	Ops      []sessOp `json:"ops"`
	Late     bool     `json:"late"`
}

func roomName(i int) adapter.Room { return adapter.Room("r" + strconv.Itoa(i)) }
func sidName(i int) adapter.SocketID {
	return adapter.SocketID("s" + strconv.Itoa(i))
}
func pidName(i int) adapter.PrivateSessionID {
	return adapter.PrivateSessionID("p" + strconv.Itoa(i))
}
func num(s string) int {
	if len(s) < 2 {
		return -1
	}
	n, err := strconv.Atoi(s[1:])
	if err != nil {
		return -1
	}
	return n
}

const witnessSid = adapter.SocketID("witness")

// runSessCase executes the history on a fresh real adapter and fills in the observations.
func runSessCase(c *sessCase) {
	window := time.Hour
	tick := time.Duration(c.Tick) * time.Millisecond
	if c.Tick > 0 {
		window = time.Duration(c.W) * tick / 2
	}
	margin := tick * 45 / 100
	store := newRecStore()
	store.sockets[witnessSid] = &recSocket{id: witnessSid}
	a, gate := newGatedAdapter(window, store)
	var wr []adapter.Room
	for _, r := range c.WitRooms {
		wr = append(wr, roomName(r))
	}
	a.AddAll(witnessSid, wr)

	start := time.Now()
	abs := 0
	seen := map[string]bool{}
	for i := range c.Ops {
		op := &c.Ops[i]
		*op = sessOp{Op: op.Op, Rooms: op.Rooms, Except: op.Except, Kind: op.Kind, Sid: op.Sid, Pid: op.Pid,
			Off: op.Off, Dt: op.Dt} // a retried history starts from clean observations
		op.At = abs
		switch op.Op {
		case "T":
			abs += op.Dt
			op.At = abs
			if c.Tick > 0 {
				d := time.Until(start.Add(time.Duration(abs) * tick))
				if d > 0 {
					time.Sleep(d)
				}
			}
		case "B":
			h := &parser.PacketHeader{Type: parser.PacketTypeEvent, Namespace: "/"}
			switch op.Kind {
			case 1:
				id := uint64(7)
				h.ID = &id
			case 2:
				h.Type = parser.PacketTypeAck
				id := uint64(7)
				h.ID = &id
			}
			opts := adapter.NewBroadcastOptions()
			for _, r := range op.Rooms {
				opts.Rooms.Add(roomName(r))
			}
			for _, r := range op.Except {
				opts.Except.Add(roomName(r))
			}
			v := make([]any, 0, 4)
			v = append(v, "ev", i)
			a.Broadcast(h, v, opts)
			log, _, _ := adapter.VerifSessionLog(a)
			if n := len(log); n > 0 && !seen[log[n-1].ID] {
				op.Logged = true
				op.ID = log[n-1].ID
				seen[op.ID] = true
			}
			got := store.take(witnessSid)
			op.Wit = len(got)
			if len(got) > 0 {
				b := got[len(got)-1]
				if j := bytes.IndexByte(b, '['); j >= 0 {
					var args []any
					if json.Unmarshal(b[j:], &args) == nil {
						op.WitN = len(args)
						if s, ok := args[len(args)-1].(string); ok && len(args) > 0 {
							op.WitID = s
						}
					}
				}
			}
		case "P":
			var rooms []adapter.Room
			for _, r := range op.Rooms {
				rooms = append(rooms, roomName(r))
			}
			a.PersistSession(&adapter.SessionToPersist{SID: sidName(op.Sid), PID: pidName(op.Pid), Rooms: rooms})
		case "C":
			gate.pass()
		case "R":
			off := "no-such-offset"
			if op.Off == -2 {
				off = ""
			} else if op.Off >= 0 && op.Off < i && c.Ops[op.Off].Logged {
				off = c.Ops[op.Off].ID
			}
			op.OffID = off
			s, ok := a.RestoreSession(pidName(op.Pid), off)
			op.Ok = ok
			op.Missed = []string{}
			if ok {
				op.RSid = num(string(s.SID))
				op.RPid = num(string(s.PID))
				for _, r := range s.Rooms {
					op.RRooms = append(op.RRooms, num(string(r)))
				}
				for _, m := range s.MissedPackets {
					op.Missed = append(op.Missed, m.ID)
				}
			}
		}
		log, pids, _ := adapter.VerifSessionLog(a)
		op.Log = []string{}
		for _, p := range log {
			op.Log = append(op.Log, p.ID)
		}
		op.Pids = []int{}
		for _, p := range pids {
			op.Pids = append(op.Pids, num(string(p)))
		}
		sort.Ints(op.Pids)
		if c.Tick > 0 {
			if time.Since(start)-time.Duration(abs)*tick > margin {
				c.Late = true
			}
		}
	}
}

// ---------------------------------------------------------------- generators

func randRooms(r *vk.Rand, nrooms int, pEmpty int) []int {
	if r.Intn(100) < pEmpty {
		return nil
	}
	var l []int
	for x := 1; x <= nrooms; x++ {
		if r.Intn(3) == 0 {
			l = append(l, x)
		}
	}
	return l
}

// genStructured: the shape the property talks about - a stream of broadcasts, one or more sessions
// that disconnect at some point k having seen some offset, clean-up passes anywhere, time passing,
// then reconnections on both sides of the window.
func genHistory(r *vk.Rand, timed bool, maxOps int) *sessCase {
	c := &sessCase{Suite: "random"}
	nrooms := 2 + r.Intn(3)
	c.WitRooms = randRooms(r, nrooms, 20)
	if timed {
		c.Suite = "timed"
		c.W = 2*(1+r.Intn(2)) + 1 // 1.5 or 2.5 ticks
	} else {
		c.W = 1
	}
	n := 4 + r.Intn(maxOps-3)
	var bIdx []int
	var pids []int
	ticks := 0
	for i := 0; i < n; i++ {
		x := r.Intn(100)
		switch {
		case x < 40 || i == 0:
			op := sessOp{Op: "B", Rooms: randRooms(r, nrooms, 40), Except: randRooms(r, nrooms, 60)}
			if r.Intn(8) == 0 {
				op.Kind = 1 + r.Intn(2)
			}
			c.Ops = append(c.Ops, op)
			bIdx = append(bIdx, i)
		case x < 55:
			p := 1 + r.Intn(3)
			c.Ops = append(c.Ops, sessOp{Op: "P", Sid: 1 + r.Intn(3), Pid: p, Rooms: randRooms(r, nrooms, 10)})
			pids = append(pids, p)
		case x < 70:
			c.Ops = append(c.Ops, sessOp{Op: "C"})
		case x < 80 && timed && ticks < 6:
			dt := 1 + r.Intn(2)
			ticks += dt
			c.Ops = append(c.Ops, sessOp{Op: "T", Dt: dt})
		default:
			op := sessOp{Op: "R", Pid: 1 + r.Intn(3)}
			if len(pids) > 0 && r.Intn(10) > 0 {
				op.Pid = pids[r.Intn(len(pids))]
			}
			switch y := r.Intn(12); {
			case y == 0:
				op.Off = -1
			case y == 1:
				op.Off = -2
			default:
				if len(bIdx) > 0 {
					op.Off = bIdx[r.Intn(len(bIdx))]
				} else {
					op.Off = -1
				}
			}
			c.Ops = append(c.Ops, op)
		}
	}
	return c
}

// exhaustive: every history of exactly `length` ops over a small alphabet (untimed).
func genExhaustive(length int, emit func(*sessCase)) {
	type tmpl struct {
		op sessOp
		r  bool
	}
	alpha := []sessOp{
		{Op: "B"},
		{Op: "B", Rooms: []int{1}},
		{Op: "B", Except: []int{1}},
		{Op: "P", Sid: 1, Pid: 1, Rooms: []int{1}},
		{Op: "C"},
	}
	var rec func(prefix []sessOp)
	rec = func(prefix []sessOp) {
		if len(prefix) == length {
			c := &sessCase{Suite: "exhaustive", W: 1, WitRooms: []int{1}}
			c.Ops = append([]sessOp{}, prefix...)
			emit(c)
			return
		}
		for _, o := range alpha {
			rec(append(prefix, o))
		}
		// restore with the offset of each earlier broadcast
		for j, p := range prefix {
			if p.Op == "B" {
				rec(append(prefix, sessOp{Op: "R", Pid: 1, Off: j}))
			}
		}
	}
	rec(nil)
}

// boundary: timed table - persist at 0, broadcast at b, clean-up passes at chosen ticks, restore at t,
// for every t on both sides of the window.
func genBoundary(emit func(*sessCase)) {
	for w := 3; w <= 5; w += 2 { // 1.5 and 2.5 ticks
		for tOff := 0; tOff <= 1; tOff++ { // offset packet emitted tOff ticks before the disconnect
			for tR := 0; tR <= 4; tR++ { // restore tR ticks after the disconnect
				for cleanAt := -1; cleanAt <= tR; cleanAt++ { // one pass cleanAt ticks after the disconnect (-1: none)
					c := &sessCase{Suite: "boundary", W: w, WitRooms: []int{1}}
					c.Ops = append(c.Ops, sessOp{Op: "B"}, sessOp{Op: "B", Rooms: []int{1}})
					if tOff > 0 {
						c.Ops = append(c.Ops, sessOp{Op: "T", Dt: tOff})
					}
					c.Ops = append(c.Ops, sessOp{Op: "B", Rooms: []int{2}}, sessOp{Op: "P", Sid: 1, Pid: 1, Rooms: []int{1, 9}},
						sessOp{Op: "B", Rooms: []int{1}}, sessOp{Op: "B", Except: []int{9}}, sessOp{Op: "B"})
					for t := 0; t <= tR; t++ {
						if t > 0 {
							c.Ops = append(c.Ops, sessOp{Op: "T", Dt: 1})
						}
						if t == cleanAt {
							c.Ops = append(c.Ops, sessOp{Op: "C"})
						}
						if t == 1 {
							c.Ops = append(c.Ops, sessOp{Op: "B", Rooms: []int{1}})
						}
					}
					c.Ops = append(c.Ops, sessOp{Op: "R", Pid: 1, Off: 1}, sessOp{Op: "R", Pid: 1, Off: 0})
					emit(c)
				}
			}
		}
	}
}

func sessionMain(args []string) error {
	fs := flag.NewFlagSet("session", flag.ExitOnError)
	seed := fs.Uint64("seed", 1, "")
	mode := fs.String("mode", "random", "random|timed|exhaustive|boundary|live|conc|race")
	n := fs.Int("n", 500, "number of random histories")
	length := fs.Int("len", 4, "history length (exhaustive)")
	maxOps := fs.Int("maxops", 25, "max ops per random history")
	tick := fs.Int("tick", 20, "tick in ms (timed histories)")
	par := fs.Int("par", 8, "timed histories run in parallel")
	bin := fs.Bool("bin", false, "live: include binary events")
	outp := fs.String("out", "-", "")
	fs.Parse(args)
	out, err := vk.NewOut(*outp)
	if err != nil {
		return err
	}
	defer out.Close()
	switch *mode {
	case "live":
		return sessionLive(out, *seed, *n, *bin, *par)
	case "conc":
		return c08Conc(out, *seed, *n)
	case "race":
		return c08Race(out, *seed, *n, *tick, *par)
	case "exhaustive":
		genExhaustive(*length, func(c *sessCase) { runSessCase(c); out.Put(c) })
		return nil
	case "random":
		r := vk.NewRand(*seed)
		for i := 0; i < *n; i++ {
			c := genHistory(r.Fork(), false, *maxOps)
			runSessCase(c)
			out.Put(c)
		}
		return nil
	case "timed", "boundary":
		var cases []*sessCase
		if *mode == "timed" {
			r := vk.NewRand(*seed)
			for i := 0; i < *n; i++ {
				cases = append(cases, genHistory(r.Fork(), true, *maxOps))
			}
		} else {
			genBoundary(func(c *sessCase) { cases = append(cases, c) })
		}
		for _, c := range cases {
			c.Tick = *tick
		}
		sem := make(chan struct{}, *par)
		var wg sync.WaitGroup
		for _, c := range cases {
			wg.Add(1)
			sem <- struct{}{}
			go func(c *sessCase) {
				defer wg.Done()
				defer func() { <-sem }()
				// a late (indeterminate) run is retried twice with fresh adapters
				for try := 0; try < 3; try++ {
					c.Late = false
					runSessCase(c)
					if !c.Late {
						break
					}
				}
			}(c)
		}
		wg.Wait()
		for _, c := range cases {
			out.Put(c)
		}
		return nil
	}
	return fmt.Errorf("unknown mode %q", *mode)
}
