package main

import (
	"flag"
	"strings"
	"time"

	"github.com/karagenc/yeast"

	"verifharness/vk"
)

// yeast: runs the offset-id generator the session-aware adapter uses (github.com/karagenc/yeast at
// the version /repo's go.mod selects) and emits inputs + observations for Adapter/YeastCheck.v.
//
//	-mode enc : Encode(n) / Decode(Encode(n)) on boundary and random n < 2^53
//	-mode run : bursts of Yeast() calls, each laid across a change of time.Now().Unix(); the clock
//	            value of every call is bracketed by a reading before and after it
func init() { register("yeast", yeastMain) }

type yEnc struct {
	N   uint64 `json:"n"`
	S   []int  `json:"s"`
	Dec int64  `json:"dec"`
	Err bool   `json:"err"`
}

type yRun struct {
	Ts     []int64 `json:"ts"`
	Ids    [][]int `json:"ids"`
	Ambig  int     `json:"ambig"`  // calls whose bracketing readings differ (resolved by the id's time part)
	Resets int     `json:"resets"` // clock changes inside the burst
}

func codes(s string) []int {
	o := make([]int, len(s))
	for i := 0; i < len(s); i++ {
		o[i] = int(s[i])
	}
	return o
}

func yeastMain(args []string) error {
	fs := flag.NewFlagSet("yeast", flag.ExitOnError)
	seed := fs.Uint64("seed", 1, "")
	mode := fs.String("mode", "enc", "enc|run")
	n := fs.Int("n", 300, "enc: random values; run: calls per burst")
	bursts := fs.Int("bursts", 2, "run: number of bursts")
	outp := fs.String("out", "-", "")
	fs.Parse(args)
	out, err := vk.NewOut(*outp)
	if err != nil {
		return err
	}
	defer out.Close()
	r := vk.NewRand(*seed ^ 0x7965617374)
	y := yeast.New()
	switch *mode {
	case "enc":
		var vals []uint64
		for i := uint64(0); i < 200; i++ {
			vals = append(vals, i)
		}
		for k := uint(1); k <= 8; k++ {
			p := uint64(1) << (6 * k)
			vals = append(vals, p-1, p, p+1, 63*p, 63*p+1)
		}
		vals = append(vals, 1<<53-1, 1<<53-2, 1<<52, 1<<52+1, uint64(time.Now().Unix()))
		for i := 0; i < *n; i++ {
			bits := uint(1 + r.Intn(53))
			vals = append(vals, r.U64()&(1<<bits-1))
		}
		for _, v := range vals {
			s := y.Encode(int64(v))
			d, err := y.Decode(s)
			out.Put(yEnc{N: v, S: codes(s), Dec: d, Err: err != nil})
		}
	case "run":
		for b := 0; b < *bursts; b++ {
			g := yeast.New()
			// start about 3 ms before the next change of the Unix second
			now := time.Now()
			next := now.Truncate(time.Second).Add(time.Second)
			time.Sleep(next.Sub(now) - 3*time.Millisecond)
			row := yRun{}
			for i := 0; i < *n; i++ {
				t0 := time.Now().Unix()
				id := g.Yeast()
				t1 := time.Now().Unix()
				t := t0
				if t0 != t1 {
					row.Ambig++
					tp := id
					if j := strings.IndexByte(id, '.'); j >= 0 {
						tp = id[:j]
					}
					if d, err := g.Decode(tp); err == nil && d == t1 {
						t = t1
					}
				}
				if len(row.Ts) > 0 && row.Ts[len(row.Ts)-1] != t {
					row.Resets++
				}
				row.Ts = append(row.Ts, t)
				row.Ids = append(row.Ids, codes(id))
				if i%8 == 0 {
					time.Sleep(100 * time.Microsecond)
				}
			}
			out.Put(row)
		}
	}
	return nil
}
