package main

// session (race part): clean-up passes that really trim the log (packets older than the window)
// and broadcasts fired from INSIDE RestoreSession's room-filter loop, at every loop position, on
// the real session-aware adapter, hook-free: BroadcastOptions.Rooms is an interface, and a wrapper's
// Contains (called by shouldIncludePacket for every logged packet after the offset) is the
// interleaving point.  The disturbance runs on another goroutine; if the adapter holds its lock
// for the whole restore it simply completes after the restore (C08).

import (
	"fmt"
	"sync"
	"time"

	mapset "github.com/deckarep/golang-set/v2"
	"github.com/karagenc/socket.io-go/adapter"
	"github.com/karagenc/socket.io-go/parser"

	"verifharness/vk"
)

type c08RaceHook struct {
	mu     sync.Mutex
	armed  bool
	count  int
	fireAt int
	fire   func()
}

func (h *c08RaceHook) tick() {
	h.mu.Lock()
	if !h.armed {
		h.mu.Unlock()
		return
	}
	n := h.count
	h.count++
	f := h.fire
	if n == h.fireAt {
		h.mu.Unlock()
		f()
		return
	}
	h.mu.Unlock()
}

type c08HookSet struct {
	mapset.Set[adapter.Room]
	h *c08RaceHook
}

func (s *c08HookSet) Contains(v ...adapter.Room) bool {
	s.h.tick()
	return s.Set.Contains(v...)
}

type c08RaceCase struct {
	Suite   string `json:"suite"`
	NOld    int    `json:"nold"`    // packets older than the window when the restore runs
	Missed  []int  `json:"missed"`  // rooms (1 = the session's room, 2 = another) of the packets after the offset packet
	FireAt  int    `json:"fire_at"` // index of the Contains call of the filter loop at which the disturbance starts
	Actions string `json:"actions"` // sequence of C (clean-up pass) and B (broadcast to the session's room)
	TickMs  int    `json:"tick_ms"`

	// observations; packets are numbered in emission order: 1..nold old, nold+1 the offset packet, ...
	Ok       bool  `json:"ok"`
	Panicked bool  `json:"panicked"`
	Replay   []int `json:"replay"`    // numbers of the replayed packets (0: a packet nobody emitted / nil)
	Inside   bool  `json:"inside"`    // the disturbance completed before RestoreSession returned
	Calls    int   `json:"calls"`     // Contains calls seen during the restore
	LogAfter []int `json:"log_after"` // the log once everything has completed
	Late     bool  `json:"late"`      // took too long with respect to the window: indeterminate
}

func c08RunRace(c *c08RaceCase) {
	tick := time.Duration(c.TickMs) * time.Millisecond
	window := 3 * tick // old packets are emitted 4 ticks before the rest
	store := newRecStore()
	a, gate := newGatedAdapter(window, store)
	hook := &c08RaceHook{}
	var ids []string
	emit := func(room int) {
		opts := adapter.NewBroadcastOptions()
		opts.Rooms = &c08HookSet{Set: opts.Rooms, h: hook}
		opts.Rooms.Add(roomName(room))
		h := &parser.PacketHeader{Type: parser.PacketTypeEvent, Namespace: "/"}
		a.Broadcast(h, []any{"ev", len(ids)}, opts)
	}
	snapshot := func() []string {
		log, _, _ := adapter.VerifSessionLog(a)
		var l []string
		for _, p := range log {
			l = append(l, p.ID)
		}
		return l
	}
	for i := 0; i < c.NOld; i++ {
		emit(1)
	}
	ids = snapshot()
	time.Sleep(4 * tick)
	start := time.Now()
	emit(1) // the offset packet
	for _, r := range c.Missed {
		emit(r)
	}
	ids = snapshot()
	off := ids[c.NOld]
	a.PersistSession(&adapter.SessionToPersist{SID: "s9", PID: "p9", Rooms: []adapter.Room{roomName(1)}})

	done := make(chan struct{})
	fired := false
	hook.fireAt = c.FireAt
	hook.fire = func() {
		fired = true
		go func() {
			for _, x := range c.Actions {
				if x == 'C' {
					gate.pass()
				} else {
					emit(1)
				}
			}
			close(done)
		}()
		select {
		case <-done:
			c.Inside = true
		case <-time.After(30 * time.Millisecond):
		}
	}
	hook.armed = true
	var session *adapter.SessionToPersist
	func() {
		defer func() {
			if r := recover(); r != nil {
				c.Panicked = true
			}
		}()
		session, c.Ok = a.RestoreSession("p9", off)
	}()
	hook.mu.Lock()
	hook.armed = false
	c.Calls = hook.count
	hook.mu.Unlock()
	if fired {
		<-done
	}
	if time.Since(start) > 2*tick {
		c.Late = true
	}
	all := snapshot()
	num := map[string]int{}
	for i, id := range ids {
		num[id] = i + 1
	}
	n := len(ids)
	for _, id := range all {
		if _, ok := num[id]; !ok {
			n++
			num[id] = n
		}
	}
	c.Replay = []int{}
	if session != nil {
		for _, p := range session.MissedPackets {
			if p == nil {
				c.Replay = append(c.Replay, 0)
			} else {
				c.Replay = append(c.Replay, num[p.ID])
			}
		}
	}
	c.LogAfter = []int{}
	for _, id := range all {
		c.LogAfter = append(c.LogAfter, num[id])
	}
}

func c08Race(out *vk.Out, seed uint64, n, tickMs, par int) error {
	r := vk.NewRand(seed)
	var cases []*c08RaceCase
	// every loop position x every disturbance, a few log shapes
	shapes := []struct {
		nold   int
		missed []int
	}{{1, []int{1, 1, 1}}, {2, []int{1, 2, 1, 1}}, {3, []int{1, 1, 2, 1, 1}}, {0, []int{1, 1}}, {2, []int{2, 1}}}
	for _, s := range shapes {
		for k := 0; k < len(s.missed); k++ {
			for _, act := range []string{"C", "B", "CB", "CBB", "BC"} {
				cases = append(cases, &c08RaceCase{Suite: "race", NOld: s.nold, Missed: s.missed, FireAt: k, Actions: act})
			}
		}
	}
	for i := 0; i < n; i++ {
		c := &c08RaceCase{Suite: "race-random", NOld: r.Intn(5)}
		m := 1 + r.Intn(6)
		for j := 0; j < m; j++ {
			c.Missed = append(c.Missed, 1+r.Intn(2))
		}
		c.FireAt = r.Intn(m)
		k := 1 + r.Intn(4)
		for j := 0; j < k; j++ {
			c.Actions += string("CB"[r.Intn(2)])
		}
		cases = append(cases, c)
	}
	sem := make(chan struct{}, par)
	var wg sync.WaitGroup
	for _, c := range cases {
		c.TickMs = tickMs
		wg.Add(1)
		sem <- struct{}{}
		go func(c *c08RaceCase) {
			defer wg.Done()
			defer func() { <-sem }()
			for try := 0; try < 3; try++ {
				fresh := c08RaceCase{Suite: c.Suite, NOld: c.NOld, Missed: c.Missed, FireAt: c.FireAt, Actions: c.Actions, TickMs: c.TickMs}
				c08RunRace(&fresh)
				*c = fresh
				if !c.Late {
					break
				}
			}
		}(c)
	}
	wg.Wait()
	for _, c := range cases {
		out.Put(c)
	}
	_ = fmt.Sprint
	return nil
}
