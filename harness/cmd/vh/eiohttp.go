package main

// eiohttp: live HTTP against a real Engine.IO server (C17).
//
//	-mode matrix : the full request matrix (method x EIO x transport x sid kind x b64 x j, plus real
//	               websocket dials, denied authentications, Atoi corner cases and forced id overlaps)
//	               against an open server, then against the same server after Close.  One row per
//	               request: state of the server before (closed flag, store, id sequence), the request,
//	               the random bytes the id generator drew, the response, the state after.
//	-mode ids    : n generated ids with the sequence number and the random bytes that went in.
//	-mode race   : handshakes racing Server.Close: forced (Authenticator / NewSocketCallback call
//	               Close in the window) and free-running (goroutines).
//
// crypto/rand.Reader is replaced by a recording reader, so the model can be given exactly the bytes
// the implementation drew (and adversarial ones: all zero, repeating).

import (
	"context"
	crand "crypto/rand"
	"encoding/json"
	"errors"
	"flag"
	"fmt"
	"io"
	"net/http"
	"net/http/httptest"
	"net/url"
	"regexp"
	"sort"
	"strings"
	"sync"
	"sync/atomic"
	"time"

	eio "github.com/karagenc/socket.io-go/engine.io"
	"github.com/karagenc/socket.io-go/engine.io/parser"
	"nhooyr.io/websocket"

	"verifharness/vk"
)

func init() { register("eiohttp", eiohttpMain) }

// ---------------------------------------------------------------- recording random source

type recReader struct {
	mu   sync.Mutex
	r    *vk.Rand
	mode string // seeded | zero | repeat
	log  [][]byte
	rec  bool
}

func (rr *recReader) Read(p []byte) (int, error) {
	rr.mu.Lock()
	defer rr.mu.Unlock()
	switch rr.mode {
	case "zero":
		for i := range p {
			p[i] = 0
		}
	case "repeat":
		for i := range p {
			p[i] = byte(0xA5 ^ i)
		}
	default:
		for i := range p {
			p[i] = byte(rr.r.U64())
		}
	}
	// the id generator draws 12 bytes per id (anything from 8 to 15 is taken to be an id draw, so a
	// changed layout shows up in the rows); websocket keys (16) and masks (4) are not ids
	if rr.rec && len(p) >= 8 && len(p) < 16 {
		rr.log = append(rr.log, append([]byte{}, p...))
	}
	return len(p), nil
}

func (rr *recReader) take() [][]byte {
	rr.mu.Lock()
	defer rr.mu.Unlock()
	l := rr.log
	rr.log = nil
	return l
}

func installReader(seed uint64, mode string, rec bool) *recReader {
	rr := &recReader{r: vk.NewRand(seed ^ 0x5eed), mode: mode, rec: rec}
	crand.Reader = rr
	return rr
}

// ---------------------------------------------------------------- server rig

type rig struct {
	srv      *eio.Server
	ts       *httptest.Server
	client   *http.Client
	ts2      *httptest.Server // the same eio server behind TLS with HTTP/2
	client2  *http.Client
	mu       sync.Mutex
	sockets  map[string]eio.ServerSocket
	onSocket int64
	onClose  int64
	closedMu sync.Mutex
	closed   []string
	killed   []string // sids of sessions the rig closed on purpose, by any cause
	// hooks for the race mode
	authHook   func(r *http.Request)
	socketHook func()
}

func newRig() *rig {
	g := &rig{sockets: map[string]eio.ServerSocket{}}
	onSocket := func(s eio.ServerSocket) *eio.Callbacks {
		atomic.AddInt64(&g.onSocket, 1)
		g.mu.Lock()
		g.sockets[s.ID()] = s
		g.mu.Unlock()
		if g.socketHook != nil {
			g.socketHook()
		}
		sid := s.ID()
		return &eio.Callbacks{OnClose: func(reason eio.Reason, err error) {
			atomic.AddInt64(&g.onClose, 1)
			g.closedMu.Lock()
			g.closed = append(g.closed, sid)
			g.closedMu.Unlock()
		}}
	}
	g.srv = eio.NewServer(onSocket, &eio.ServerConfig{
		Authenticator: func(w http.ResponseWriter, r *http.Request) bool {
			if g.authHook != nil {
				g.authHook(r)
			}
			return r.Header.Get("X-Verif-Auth") != "deny"
		},
		PingInterval:  10 * time.Minute,
		PingTimeout:   10 * time.Minute,
		MaxBufferSize: 10000,
	})
	g.ts = httptest.NewServer(g.srv)
	g.client = &http.Client{Timeout: 4 * time.Second}
	g.ts2 = httptest.NewUnstartedServer(g.srv)
	g.ts2.EnableHTTP2 = true
	g.ts2.StartTLS()
	g.client2 = g.ts2.Client()
	g.client2.Timeout = 4 * time.Second
	return g
}

func (g *rig) stop() {
	g.srv.Close()
	g.client.CloseIdleConnections()
	g.ts.CloseClientConnections()
	g.ts.Close()
	g.client2.CloseIdleConnections()
	g.ts2.CloseClientConnections()
	g.ts2.Close()
}

func (g *rig) closedSids() []string {
	g.closedMu.Lock()
	defer g.closedMu.Unlock()
	r := append([]string{}, g.closed...)
	sort.Strings(r)
	return r
}

type stateObs struct {
	Closed bool        `json:"closed"`
	Store  [][2]string `json:"store"` // [sid, transport], sorted by sid
	Seq    uint32      `json:"seq"`
}

func (g *rig) state() stateObs {
	st := stateObs{Closed: g.srv.IsClosed(), Seq: eio.VerifBase64IDSeq(), Store: [][2]string{}}
	for _, s := range g.srv.VerifSessions() {
		st.Store = append(st.Store, [2]string{s.SID, s.Transport})
	}
	return st
}

type reqSpec struct {
	// HTTP version the request arrives with: 0/1 = HTTP/1.1 over TCP, 2 = HTTP/2 over TLS (real
	// connections); Direct: the handler is called with a request whose ProtoMajor is Proto (that is
	// all the server looks at; the only way to present HTTP/3 and CONNECT without a QUIC stack)
	Proto   int    `json:"proto"`
	Direct  bool   `json:"direct"`
	Method  string `json:"method"`
	EIO     string `json:"eio"`
	Tr      string `json:"tr"`
	SID     string `json:"sid"`
	SIDKind string `json:"sidkind"` // absent | unknown | live | closed | livews
	B64     bool   `json:"b64"`
	J       bool   `json:"j"`
	WsUp    bool   `json:"wsup"` // a real websocket dial (GET with upgrade headers)
	Deny    bool   `json:"deny"` // the Authenticator will refuse
}

type respObs struct {
	Status int    `json:"status"`
	Code   int    `json:"code"` // JSON error code, -1 if the body is not a server error
	SID    string `json:"sid"`  // sid of the OPEN packet in the body / first websocket message
	Body   string `json:"body"` // open | err | ok | payload | empty | other
}

type mxRow struct {
	Phase    string   `json:"phase"`
	Pre      stateObs `json:"pre"`
	Req      reqSpec  `json:"req"`
	Rnd      [][]int  `json:"rnd"`
	Resp     respObs  `json:"resp"`
	Post     stateObs `json:"post"`
	OnSocket int64    `json:"onsocket"` // NewSocketCallback invocations during the request
	OnClose  int64    `json:"onclose"`
	Closed   []string `json:"closedsids"` // sids of the sessions the rig has closed so far (by any cause)
	Err      string   `json:"err,omitempty"` // the request got no HTTP answer (status 0): what the client reported
}

var sidRe = regexp.MustCompile(`\\?"sid\\?":\\?"([A-Za-z0-9_-]*)\\?"`)

func classifyBody(status int, body []byte, isJ bool) (code int, sid, kind string) {
	code = -1
	if len(body) == 0 {
		return code, "", "empty"
	}
	var se struct {
		Code    *int    `json:"code"`
		Message *string `json:"message"`
	}
	if json.Unmarshal(body, &se) == nil && se.Code != nil && se.Message != nil {
		want, ok := eio.GetServerError(*se.Code)
		if ok && want.Message == *se.Message {
			return *se.Code, "", "err"
		}
		return *se.Code, "", "other"
	}
	s := string(body)
	if s == "ok" {
		return code, "", "ok"
	}
	payload := s
	if isJ && strings.HasPrefix(s, "___eio[") {
		if i := strings.Index(s, "(\""); i >= 0 {
			payload = s[i+2:]
		}
	}
	if strings.HasPrefix(payload, "0{") || strings.HasPrefix(payload, "0\\u007B") || strings.HasPrefix(payload, "0\\x7B") {
		if m := sidRe.FindStringSubmatch(payload); m != nil {
			return code, m[1], "open"
		}
	}
	if len(payload) > 0 && payload[0] >= '0' && payload[0] <= '6' {
		return code, "", "payload"
	}
	return code, "", "other"
}

func (g *rig) url(rq reqSpec) string {
	q := url.Values{}
	if rq.EIO != "" {
		q.Set("EIO", rq.EIO)
	}
	if rq.Tr != "" {
		q.Set("transport", rq.Tr)
	}
	if rq.SID != "" {
		q.Set("sid", rq.SID)
	}
	if rq.B64 {
		q.Set("b64", "1")
	}
	if rq.J {
		q.Set("j", "0")
	}
	base := g.ts.URL
	if rq.Proto == 2 && !rq.Direct {
		base = g.ts2.URL
	}
	return base + "/engine.io/?" + q.Encode()
}

// do performs one request and records the states around it.
func (g *rig) do(phase string, rq reqSpec, rr *recReader, conns *[]*websocket.Conn) (mxRow, error) {
	if rq.Proto == 0 {
		rq.Proto = 1
	}
	row := mxRow{Phase: phase, Req: rq}
	rr.take()
	s0, c0 := atomic.LoadInt64(&g.onSocket), atomic.LoadInt64(&g.onClose)
	row.Pre = g.state()
	u := g.url(rq)
	if rq.WsUp {
		ctx, cancel := context.WithTimeout(context.Background(), 8*time.Second)
		defer cancel()
		hdr := http.Header{}
		if rq.Deny {
			hdr.Set("X-Verif-Auth", "deny")
		}
		conn, resp, err := websocket.Dial(ctx, strings.Replace(u, "http://", "ws://", 1), &websocket.DialOptions{HTTPClient: g.client, HTTPHeader: hdr})
		row.Resp.Code = -1
		if resp == nil {
			row.Resp.Body, row.Err = "other", fmt.Sprint(err)
			return g.finish(row, rr, s0, c0), nil
		}
		row.Resp.Status = resp.StatusCode
		if err != nil {
			body, _ := io.ReadAll(resp.Body)
			row.Resp.Code, row.Resp.SID, row.Resp.Body = classifyBody(resp.StatusCode, body, false)
		} else {
			*conns = append(*conns, conn)
			row.Resp.Body = "empty"
			if rq.SID != "" {
				drain(conn)
			} else {
				defer drain(conn)
				rctx, rcancel := context.WithTimeout(context.Background(), 5*time.Second)
				_, msg, rerr := conn.Read(rctx)
				rcancel()
				if rerr != nil {
					row.Err = fmt.Sprintf("no OPEN packet: %v", rerr)
					msg = nil
				}
				row.Resp.Code, row.Resp.SID, row.Resp.Body = classifyBody(101, msg, false)
				// newSocket (store.set) runs after the OPEN packet was written: wait for it
				deadline := time.Now().Add(5 * time.Second)
				for time.Now().Before(deadline) {
					if len(g.srv.VerifSessions()) != len(row.Pre.Store) || g.srv.IsClosed() {
						break
					}
					time.Sleep(200 * time.Microsecond)
				}
			}
		}
	} else {
		var body io.Reader
		ctype := ""
		if rq.Method == "POST" {
			if rq.J {
				body = strings.NewReader("d=" + url.QueryEscape("4hi"))
				ctype = "application/x-www-form-urlencoded"
			} else {
				body = strings.NewReader("4hi")
				ctype = "text/plain;charset=UTF-8"
			}
		}
		req, err := http.NewRequest(rq.Method, u, body)
		if err != nil {
			return row, err
		}
		if ctype != "" {
			req.Header.Set("Content-Type", ctype)
		}
		if rq.Deny {
			req.Header.Set("X-Verif-Auth", "deny")
		}
		if rq.Direct {
			req.Proto, req.ProtoMajor, req.ProtoMinor = fmt.Sprintf("HTTP/%d.0", rq.Proto), rq.Proto, 0
			if rq.Proto == 1 {
				req.Proto, req.ProtoMinor = "HTTP/1.1", 1
			}
			req.RequestURI = req.URL.RequestURI()
			if req.Body == nil {
				req.Body = http.NoBody
			}
			rec := httptest.NewRecorder()
			done := make(chan struct{})
			go func() {
				defer close(done)
				defer func() {
					if p := recover(); p != nil {
						row.Err = fmt.Sprintf("handler panicked: %v", p)
					}
				}()
				g.srv.ServeHTTP(rec, req)
			}()
			select {
			case <-done:
				row.Resp.Status = rec.Code
				row.Resp.Code, row.Resp.SID, row.Resp.Body = classifyBody(rec.Code, rec.Body.Bytes(), rq.J)
			case <-time.After(4 * time.Second):
				row.Resp.Code, row.Resp.Body, row.Err = -1, "other", "handler did not return within 4 s"
			}
			return g.finish(row, rr, s0, c0), nil
		}
		client := g.client
		if rq.Proto == 2 {
			client = g.client2
		}
		resp, err := client.Do(req)
		if err == nil && rq.Proto == 2 && resp.ProtoMajor != 2 {
			row.Err = "answered over " + resp.Proto + ", not HTTP/2"
		}
		if err != nil {
			// no answer (e.g. a poll that blocks on a session that should not exist any more)
			row.Resp.Code, row.Resp.Body, row.Err = -1, "other", fmt.Sprint(err)
			return g.finish(row, rr, s0, c0), nil
		}
		b, _ := io.ReadAll(resp.Body)
		resp.Body.Close()
		row.Resp.Status = resp.StatusCode
		row.Resp.Code, row.Resp.SID, row.Resp.Body = classifyBody(resp.StatusCode, b, rq.J)
	}
	return g.finish(row, rr, s0, c0), nil
}

func (g *rig) finish(row mxRow, rr *recReader, s0, c0 int64) mxRow {
	row.Post = g.state()
	row.OnSocket = atomic.LoadInt64(&g.onSocket) - s0
	row.OnClose = atomic.LoadInt64(&g.onClose) - c0
	row.Rnd = [][]int{}
	for _, b := range rr.take() {
		row.Rnd = append(row.Rnd, vk.Ints(b))
	}
	row.Closed = append([]string{}, g.killed...)
	return row
}

// drain keeps reading a websocket connection, as a real client does (this is also what answers
// the server's close frame, so that a server-side Close does not wait for its time-out).
func drain(conn *websocket.Conn) {
	go func() {
		for {
			if _, _, err := conn.Read(context.Background()); err != nil {
				return
			}
		}
	}()
}

func (g *rig) socket(sid string) eio.ServerSocket {
	g.mu.Lock()
	defer g.mu.Unlock()
	return g.sockets[sid]
}

func (g *rig) waitGone(sid string) error {
	deadline := time.Now().Add(2 * time.Second)
	for time.Now().Before(deadline) {
		found := false
		for _, s := range g.srv.VerifSessions() {
			if s.SID == sid {
				found = true
			}
		}
		if !found {
			return nil
		}
		time.Sleep(time.Millisecond)
	}
	return fmt.Errorf("session %s did not leave the store", sid)
}

func atoiIs4(s string) bool {
	// what strconv.Atoi(s) == 4 means, independently of the repo: optional '+', digits, value 4
	if strings.HasPrefix(s, "+") {
		s = s[1:]
	}
	if s == "" {
		return false
	}
	for _, c := range s {
		if c < '0' || c > '9' {
			return false
		}
	}
	return strings.TrimLeft(s, "0") == "4"
}

func matrixMain(seed uint64, thorough bool, out *vk.Out) error {
	rr := installReader(seed, "seeded", true)
	r := vk.NewRand(seed)
	g := newRig()
	defer g.stop()
	var conns []*websocket.Conn
	defer func() {
		for _, c := range conns {
			c.Close(websocket.StatusNormalClosure, "")
		}
	}()
	put := func(phase string, rq reqSpec) error {
		if rq.SID != "" && rq.Method == "GET" && rq.Tr == "polling" {
			// a poll on an empty queue would block for pollTimeout: give it something to return
			// (also for sessions that were closed: should one still be served, the answer is recorded)
			if s := g.socket(rq.SID); s != nil && s.TransportName() == "polling" && !g.srv.IsClosed() {
				p, _ := parser.NewPacket(parser.PacketTypeMessage, false, []byte("x"))
				s.Send(p)
			}
		}
		row, err := g.do(phase, rq, rr, &conns)
		if err != nil {
			return err
		}
		out.Put(row)
		return nil
	}
	open := func(tr string, ws bool) (string, error) {
		row, err := g.do("setup", reqSpec{Method: "GET", EIO: "4", Tr: tr, SIDKind: "absent", WsUp: ws}, rr, &conns)
		if err != nil {
			return "", err
		}
		out.Put(row)
		if row.Resp.SID == "" {
			return "", fmt.Errorf("setup handshake (%s) returned no sid: %+v", tr, row.Resp)
		}
		return row.Resp.SID, nil
	}
	// live sessions
	var live []string
	for i := 0; i < 3; i++ {
		sid, err := open("polling", false)
		if err != nil {
			return err
		}
		live = append(live, sid)
	}
	liveWs, err := open("websocket", true)
	if err != nil {
		return err
	}
	// closed sessions, one or two per cause.  A session that fails to leave the store is NOT an
	// error of the rig: it is kept in the "closed" column (with its cause) and in `closedsids`,
	// so that the oracle judges the requests that carry its sid.
	var closedSids, closedCause []string
	var notGone []map[string]string
	postTo := func(sid, ctype string, body io.Reader) {
		resp, err := g.client.Post(g.url(reqSpec{EIO: "4", Tr: "polling", SID: sid}), ctype, body)
		if err == nil {
			io.Copy(io.Discard, resp.Body)
			resp.Body.Close()
		}
	}
	causes := []string{"server-close", "client-close-packet", "parse-error", "oversized-body", "ping-timeout", "websocket-drop", "server-close", "client-close-packet"}
	for _, cause := range causes {
		ws := cause == "websocket-drop"
		if cause == "ping-timeout" {
			g.srv.VerifSetPing(40*time.Millisecond, 40*time.Millisecond)
		}
		tr := "polling"
		if ws {
			tr = "websocket"
		}
		sid, err := open(tr, ws)
		if cause == "ping-timeout" {
			g.srv.VerifSetPing(10*time.Minute, 10*time.Minute)
		}
		if err != nil {
			return err
		}
		switch cause {
		case "server-close":
			g.socket(sid).Close()
		case "client-close-packet":
			postTo(sid, "text/plain", strings.NewReader("1"))
		case "parse-error":
			postTo(sid, "text/plain", strings.NewReader("\x1e\x1ezz:not a packet"))
		case "oversized-body":
			postTo(sid, "text/plain", strings.NewReader("4"+strings.Repeat("x", 20000)))
		case "ping-timeout":
			// nothing to do: nobody answers the ping
		case "websocket-drop":
			c := conns[len(conns)-1]
			conns = conns[:len(conns)-1]
			c.Close(websocket.StatusNormalClosure, "")
		}
		g.killed = append(g.killed, sid)
		if err := g.waitGone(sid); err != nil {
			notGone = append(notGone, map[string]string{"sid": sid, "cause": cause})
		}
		closedSids = append(closedSids, sid)
		closedCause = append(closedCause, cause)
	}
	out.Put(map[string]any{"phase": "closed-sessions", "sids": closedSids, "causes": closedCause, "not_gone": notGone, "store": g.state().Store})
	unknown := func() string {
		switch r.Intn(4) {
		case 0:
			return "x"
		case 1: // a well-formed id that was never issued
			b := r.Bytes(15)
			const al = "ABCDEFGHIJKLMNOPQRSTUVWXYZabcdefghijklmnopqrstuvwxyz0123456789-_"
			s := make([]byte, 20)
			for i := range s {
				s[i] = al[int(b[i%15]+byte(i))%64]
			}
			return string(s)
		case 2:
			return live[0][:19] // prefix of a live sid
		default:
			return live[0] + "A"
		}
	}

	methods := []string{"GET", "POST", "PUT", "DELETE", "OPTIONS"}
	eios := []string{"", "3", "4", "5", "v4"}
	trs := []string{"", "polling", "websocket", "junk"}
	sidkinds := []string{"absent", "unknown", "live", "closed"}
	mkSid := func(kind string, i int) string {
		switch kind {
		case "unknown":
			return unknown()
		case "live":
			return live[i%len(live)]
		case "livews":
			return liveWs
		case "closed":
			return closedSids[i%len(closedSids)]
		}
		return ""
	}
	nclosed := 0
	pick := func(kind string, i int) (string, string) { // sid and sid kind (closed sessions rotate over the causes)
		if kind == "closed" {
			nclosed++
			j := nclosed % len(closedSids)
			return closedSids[j], "closed:" + closedCause[j]
		}
		return mkSid(kind, i), kind
	}
	var specs []reqSpec
	i := 0
	for _, m := range methods {
		for _, e := range eios {
			for _, t := range trs {
				for _, sk := range sidkinds {
					for _, b64 := range []bool{false, true} {
						for _, j := range []bool{false, true} {
							i++
							specs = append(specs, reqSpec{Method: m, EIO: e, Tr: t, SIDKind: sk, B64: b64, J: j})
						}
					}
				}
			}
		}
	}
	// extra columns: webtransport as a name, a live websocket session, denied authentication,
	// Atoi corner cases of the version, real websocket dials
	for _, m := range methods {
		for _, e := range []string{"4", "3"} {
			for _, sk := range []string{"absent", "unknown", "live", "livews", "closed"} {
				for _, t := range []string{"webtransport", "Polling", "polling ", "websocket"} {
					if t == "websocket" && sk != "livews" {
						continue
					}
					specs = append(specs, reqSpec{Method: m, EIO: e, Tr: t, SIDKind: sk})
				}
				if sk == "livews" {
					specs = append(specs, reqSpec{Method: m, EIO: e, Tr: "polling", SIDKind: sk},
						reqSpec{Method: m, EIO: e, Tr: "", SIDKind: sk}, reqSpec{Method: m, EIO: e, Tr: "junk", SIDKind: sk})
				}
			}
		}
	}
	for _, m := range methods {
		for _, e := range []string{"4", "5", ""} {
			for _, t := range trs {
				for _, sk := range sidkinds {
					specs = append(specs, reqSpec{Method: m, EIO: e, Tr: t, SIDKind: sk, Deny: true})
				}
			}
		}
	}
	for _, e := range []string{"04", "+4", "-4", "4.0", "44", " 4", "4 ", "0x4", "4_", "+", "-", "0004", "+04", "４", "18446744073709551620", "-0", "4e0"} {
		for _, m := range []string{"GET", "POST"} {
			for _, sk := range []string{"absent", "live", "unknown"} {
				specs = append(specs, reqSpec{Method: m, EIO: e, Tr: "polling", SIDKind: sk})
			}
		}
	}
	for _, e := range eios {
		for _, t := range append(append([]string{}, trs...), "webtransport") {
			for _, sk := range []string{"absent", "unknown", "live", "livews", "closed"} {
				for _, b64 := range []bool{false, true} {
					specs = append(specs, reqSpec{Method: "GET", EIO: e, Tr: t, SIDKind: sk, B64: b64, WsUp: true})
				}
			}
		}
	}
	specs = append(specs, reqSpec{Method: "GET", EIO: "4", Tr: "websocket", SIDKind: "absent", WsUp: true, Deny: true})
	// the HTTP-version dimension: the (flag-less) matrix again over real HTTP/2 (TLS, h2), and with the
	// handler called directly on requests that say HTTP/3 (all methods incl. CONNECT) and, for CONNECT,
	// HTTP/1.1 and HTTP/2
	for _, m := range methods {
		for _, e := range eios {
			for _, t := range trs {
				for _, sk := range sidkinds {
					specs = append(specs, reqSpec{Proto: 2, Method: m, EIO: e, Tr: t, SIDKind: sk})
				}
			}
		}
	}
	deios, dkinds := eios, sidkinds
	if !thorough {
		deios, dkinds = []string{"", "3", "4"}, []string{"absent", "live", "closed"}
	}
	for _, m := range append(append([]string{}, methods...), "CONNECT") {
		for _, e := range deios {
			for _, t := range append(append([]string{}, trs...), "webtransport") {
				for _, sk := range dkinds {
					specs = append(specs, reqSpec{Proto: 3, Direct: true, Method: m, EIO: e, Tr: t, SIDKind: sk})
					if m == "CONNECT" || (m == "GET" && t != "webtransport") {
						specs = append(specs, reqSpec{Proto: 1, Direct: true, Method: m, EIO: e, Tr: t, SIDKind: sk},
							reqSpec{Proto: 2, Direct: true, Method: m, EIO: e, Tr: t, SIDKind: sk})
					}
				}
			}
		}
	}
	if thorough {
		// the same matrix again in a seeded random order (different store contents along the way)
		n := len(specs)
		perm := make([]reqSpec, n)
		copy(perm, specs)
		for k := n - 1; k > 0; k-- {
			j := r.Intn(k + 1)
			perm[k], perm[j] = perm[j], perm[k]
		}
		specs = append(specs, perm...)
	}
	for k, sp := range specs {
		sp.SID, sp.SIDKind = pick(sp.SIDKind, k)
		if err := put("open", sp); err != nil {
			return err
		}
	}

	// forced id overlaps: with a constant random source, rewinding the sequence number makes the
	// generator propose ids that are live; the store check must retry (<= 11 tries) or give up
	// with 500, never hand out a live sid.
	rr.mode = "repeat"
	base := uint32(0x00ABCDE0)
	eio.VerifSetBase64IDSeq(base)
	hs := reqSpec{Method: "GET", EIO: "4", Tr: "polling", SIDKind: "absent"}
	for k := 0; k < 14; k++ { // ids with seq base .. base+13 become live
		if err := put("overlap", hs); err != nil {
			return err
		}
	}
	top := uint32(14) // ids with seq base .. base+top-1 are live
	try := func(seq uint32) error {
		eio.VerifSetBase64IDSeq(seq)
		n0 := len(g.srv.VerifSessions())
		if err := put("overlap", hs); err != nil {
			return err
		}
		if len(g.srv.VerifSessions()) > n0 {
			top++
		}
		return nil
	}
	for _, f := range []func() uint32{
		func() uint32 { return base },                    // 11 live in a row: gives up
		func() uint32 { return base + top - 10 },         // 10 live, the 11th try is free
		func() uint32 { return base + top - 11 },         // 11 live: gives up
		func() uint32 { return base + top - 1 },          // 1 live then free
		func() uint32 { return base + top },              // free at once
		func() uint32 { return base + 1<<24 + top - 3 },  // the sequence number is cut to 24 bits: same ids 2^24 later
		func() uint32 { return base + 5<<24 + top - 11 }, // ... and 11 of them live: gives up
	} {
		if err := try(f()); err != nil {
			return err
		}
	}
	eio.VerifSetBase64IDSeq(0xFFFFFFFE) // uint32 wrap-around of the counter
	for k := 0; k < 4; k++ {
		if err := put("overlap", hs); err != nil {
			return err
		}
	}
	rr.mode = "seeded"

	// Close, then the matrix again: nothing is admitted, nothing is left.
	pre := g.state()
	nclosed0 := atomic.LoadInt64(&g.onClose)
	g.srv.Close()
	deadline := time.Now().Add(5 * time.Second)
	for time.Now().Before(deadline) && atomic.LoadInt64(&g.onClose)-nclosed0 < int64(len(pre.Store)) {
		time.Sleep(time.Millisecond)
	}
	post := g.state()
	out.Put(map[string]any{"phase": "close", "pre": pre, "post": post,
		"onclose": atomic.LoadInt64(&g.onClose) - nclosed0, "closed_sids": g.closedSids()})
	for k, sp := range specs {
		if thorough && k >= len(specs)/2 {
			break
		}
		if sp.WsUp && k%3 != 0 {
			continue
		}
		if !thorough && !sp.WsUp && k%4 != 1 { // quick tier: every fourth request of the matrix (all answers are 503)
			continue
		}
		sp.SID, sp.SIDKind = pick(sp.SIDKind, k)
		if err := put("closed", sp); err != nil {
			return err
		}
	}
	return nil
}

// ---------------------------------------------------------------- ids

func idsMain(seed uint64, n int, rmode string, start uint32, out *vk.Out) error {
	rr := installReader(seed, rmode, true)
	eio.VerifSetBase64IDSeq(start)
	seen := make(map[string]struct{}, n)
	dups := 0
	type idRow struct {
		Seq uint32 `json:"seq"`
		Rnd []int  `json:"rnd"`
		ID  string `json:"id"`
	}
	for i := 0; i < n; i++ {
		seq := eio.VerifBase64IDSeq()
		id, err := eio.GenerateBase64ID(eio.Base64IDSize)
		if err != nil {
			return err
		}
		l := rr.take()
		if len(l) != 1 {
			return fmt.Errorf("id generator drew %d blocks of random bytes for one id", len(l))
		}
		if _, ok := seen[id]; ok {
			dups++
		}
		seen[id] = struct{}{}
		out.Put(idRow{Seq: seq, Rnd: vk.Ints(l[0]), ID: id})
	}
	out.Put(map[string]any{"summary": true, "n": n, "distinct": len(seen), "dups": dups, "rand": rmode, "start": start})
	return nil
}

// ---------------------------------------------------------------- race

type raceRow struct {
	Kind     string   `json:"kind"` // auth | onsocket | free
	Tr       string   `json:"tr"`
	Live     int      `json:"live"`     // sessions before
	Racers   int      `json:"racers"`   // handshakes racing Close
	Status   []int    `json:"status"`   // per racer
	SIDs     []string `json:"sids"`     // per racer: sid handed out ("" if none)
	Pre      stateObs `json:"pre"`
	Post     stateObs `json:"post"`     // after Close and all handshakes returned (and settled)
	OnSocket int64    `json:"onsocket"` // NewSocketCallback invocations
	OnClose  int64    `json:"onclose"`  // OnClose callbacks
	After    int      `json:"after"`    // status of a fresh handshake afterwards
}

func raceOnce(kind, tr string, nlive, racers int, rr *recReader) (raceRow, error) {
	g := newRig()
	defer g.stop()
	row := raceRow{Kind: kind, Tr: tr, Live: nlive, Racers: racers}
	var conns []*websocket.Conn
	defer func() {
		for _, c := range conns {
			c.Close(websocket.StatusNormalClosure, "")
		}
	}()
	for i := 0; i < nlive; i++ {
		ws := i%3 == 2
		t := "polling"
		if ws {
			t = "websocket"
		}
		r, err := g.do("setup", reqSpec{Method: "GET", EIO: "4", Tr: t, WsUp: ws}, rr, &conns)
		if err != nil {
			return row, err
		}
		if r.Resp.SID == "" {
			return row, errors.New("setup handshake failed")
		}
	}
	row.Pre = g.state()
	s0 := atomic.LoadInt64(&g.onSocket)
	var closeDone sync.WaitGroup
	switch kind {
	case "auth":
		g.authHook = func(r *http.Request) {
			if r.Header.Get("X-Verif-Close") == "1" {
				g.srv.Close()
			}
		}
	case "onsocket":
		g.socketHook = func() { g.srv.Close() }
	}
	row.Status = make([]int, racers)
	row.SIDs = make([]string, racers)
	var wg sync.WaitGroup
	var connMu sync.Mutex
	var firstErr atomic.Value
	for i := 0; i < racers; i++ {
		wg.Add(1)
		go func(i int) {
			defer wg.Done()
			u := g.url(reqSpec{EIO: "4", Tr: tr})
			if tr == "websocket" {
				ctx, cancel := context.WithTimeout(context.Background(), 8*time.Second)
				defer cancel()
				hdr := http.Header{}
				hdr.Set("X-Verif-Close", "1")
				conn, resp, err := websocket.Dial(ctx, strings.Replace(u, "http://", "ws://", 1), &websocket.DialOptions{HTTPClient: g.client, HTTPHeader: hdr})
				if resp == nil {
					firstErr.Store(fmt.Errorf("dial: %v", err))
					return
				}
				row.Status[i] = resp.StatusCode
				if err == nil {
					rctx, rcancel := context.WithTimeout(context.Background(), 3*time.Second)
					_, msg, rerr := conn.Read(rctx)
					rcancel()
					if rerr == nil {
						_, row.SIDs[i], _ = classifyBody(101, msg, false)
					}
					drain(conn)
					connMu.Lock()
					conns = append(conns, conn) // kept open: the session must be closed by the server, not by us
					connMu.Unlock()
				}
				return
			}
			req, _ := http.NewRequest("GET", u, nil)
			req.Header.Set("X-Verif-Close", "1")
			resp, err := g.client.Do(req)
			if err != nil {
				firstErr.Store(err)
				return
			}
			b, _ := io.ReadAll(resp.Body)
			resp.Body.Close()
			row.Status[i] = resp.StatusCode
			_, row.SIDs[i], _ = classifyBody(resp.StatusCode, b, false)
		}(i)
	}
	if kind == "free" {
		closeDone.Add(1)
		go func() {
			defer closeDone.Done()
			time.Sleep(time.Duration(rr.r.Intn(400)) * time.Microsecond)
			g.srv.Close()
		}()
	}
	wg.Wait()
	closeDone.Wait()
	if e := firstErr.Load(); e != nil {
		return row, e.(error)
	}
	// the websocket handler calls NewSocketCallback after the client already has its answer
	for dl := time.Now().Add(3 * time.Second); !g.srv.IsClosed() && time.Now().Before(dl); {
		time.Sleep(200 * time.Microsecond)
	}
	if !g.srv.IsClosed() {
		return row, errors.New("server was not closed by the race")
	}
	// settle: the websocket handler goroutine runs newSocket after the client got its answer: wait
	// (bounded) until every handshake that was answered with a sid has reached NewSocketCallback,
	// every NewSocketCallback invocation is matched by an OnClose, and the store is empty
	admitted := int64(0)
	for _, sid := range row.SIDs {
		if sid != "" {
			admitted++
		}
	}
	deadline := time.Now().Add(3 * time.Second)
	for time.Now().Before(deadline) {
		if atomic.LoadInt64(&g.onSocket)-s0 >= admitted && len(g.srv.VerifSessions()) == 0 &&
			atomic.LoadInt64(&g.onClose) >= atomic.LoadInt64(&g.onSocket) {
			break
		}
		time.Sleep(time.Millisecond)
	}
	time.Sleep(5 * time.Millisecond)
	row.Post = g.state()
	row.OnSocket = atomic.LoadInt64(&g.onSocket) - s0
	row.OnClose = atomic.LoadInt64(&g.onClose)
	resp, err := g.client.Get(g.url(reqSpec{EIO: "4", Tr: "polling"}))
	if err != nil {
		return row, err
	}
	io.Copy(io.Discard, resp.Body)
	resp.Body.Close()
	row.After = resp.StatusCode
	return row, nil
}

func raceMain(seed uint64, n int, out *vk.Out) error {
	rr := installReader(seed, "seeded", false)
	for _, kind := range []string{"auth", "onsocket"} {
		for _, tr := range []string{"polling", "websocket"} {
			for nlive := 0; nlive <= 3; nlive++ {
				row, err := raceOnce(kind, tr, nlive, 1, rr)
				if err != nil {
					return fmt.Errorf("race %s/%s/%d: %w", kind, tr, nlive, err)
				}
				out.Put(row)
			}
		}
	}
	for i := 0; i < n; i++ {
		tr := "polling"
		if i%4 == 3 {
			tr = "websocket"
		}
		row, err := raceOnce("free", tr, i%3, 2+i%7, rr)
		if err != nil {
			return fmt.Errorf("race free %d: %w", i, err)
		}
		out.Put(row)
	}
	return nil
}

func eiohttpMain(args []string) error {
	fs := flag.NewFlagSet("eiohttp", flag.ExitOnError)
	seed := fs.Uint64("seed", 1, "")
	mode := fs.String("mode", "matrix", "matrix|ids|race")
	n := fs.Int("n", 1000, "ids: number of ids; race: number of free-running races")
	rmode := fs.String("rand", "seeded", "ids: seeded|zero|repeat random source")
	start := fs.Uint64("start", 0, "ids: first sequence number")
	thorough := fs.Bool("thorough", false, "")
	outp := fs.String("out", "-", "")
	fs.Parse(args)
	out, err := vk.NewOut(*outp)
	if err != nil {
		return err
	}
	defer out.Close()
	switch *mode {
	case "matrix":
		return matrixMain(*seed, *thorough, out)
	case "ids":
		return idsMain(*seed, *n, *rmode, uint32(*start), out)
	case "race":
		return raceMain(*seed, *n, out)
	}
	return fmt.Errorf("unknown mode %q", *mode)
}
