module verifharness

go 1.22

require (
	github.com/deckarep/golang-set/v2 v2.6.0
	github.com/karagenc/socket.io-go v0.0.0
	github.com/karagenc/yeast v0.1.1
	github.com/quic-go/webtransport-go v0.8.0
	github.com/sasha-s/go-deadlock v0.3.1
	nhooyr.io/websocket v1.8.11
)

require (
	github.com/fatih/color v1.17.0 // indirect
	github.com/fatih/structs v1.1.0 // indirect
	github.com/mattn/go-colorable v0.1.13 // indirect
	github.com/mattn/go-isatty v0.0.20 // indirect
	github.com/petermattis/goid v0.0.0-20240716203034-badd1c0974d6 // indirect
	github.com/quic-go/qpack v0.4.0 // indirect
	github.com/quic-go/quic-go v0.45.2 // indirect
	github.com/xiegeo/coloredgoroutine v0.1.1 // indirect
	golang.org/x/crypto v0.25.0 // indirect
	golang.org/x/exp v0.0.0-20240719175910-8a7402abbf56 // indirect
	golang.org/x/net v0.27.0 // indirect
	golang.org/x/sys v0.22.0 // indirect
	golang.org/x/text v0.16.0 // indirect
)

replace github.com/karagenc/socket.io-go => /repo

// C16: instrumented copy (lock tracing); only linked into the repo's mutexes under -tags sio_deadlock
replace github.com/sasha-s/go-deadlock => ./third_party/go-deadlock
