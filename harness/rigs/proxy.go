// Package rigs: reusable live-rig parts.  proxy.go: a cutting TCP proxy.
//
// The proxy forwards every accepted connection to a fixed target and counts the bytes per
// direction (summed over all connections, in forwarding order).  A cut point (direction, n) makes
// it forward exactly the first n bytes of that direction and then kill every connection (both
// halves, RST-less close) and refuse new ones: the network is gone from that byte on.
package rigs

import (
	"net"
	"sync"
)

type Dir int

const (
	C2S Dir = 0 // client -> server
	S2C Dir = 1 // server -> client
)

type Proxy struct {
	ln     net.Listener
	target string

	mu    sync.Mutex
	conns []net.Conn
	count [2]int64
	cut   [2]int64 // -1 = no cut armed
	dead  bool
	cutCh chan struct{}
	once  sync.Once
}

func NewProxy(target string) (*Proxy, error) {
	ln, err := net.Listen("tcp", "127.0.0.1:0")
	if err != nil {
		return nil, err
	}
	p := &Proxy{ln: ln, target: target, cut: [2]int64{-1, -1}, cutCh: make(chan struct{})}
	go p.accept()
	return p, nil
}

func (p *Proxy) Addr() string { return p.ln.Addr().String() }

// CutAfter arms a cut: after n bytes of direction d were forwarded the network dies.
func (p *Proxy) CutAfter(d Dir, n int64) {
	p.mu.Lock()
	p.cut[d] = n
	hit := p.count[d] >= n
	p.mu.Unlock()
	if hit {
		p.CutNow()
	}
}

// CutNow kills every connection and refuses new ones.
func (p *Proxy) CutNow() {
	p.mu.Lock()
	p.dead = true
	conns := p.conns
	p.conns = nil
	p.mu.Unlock()
	for _, c := range conns {
		c.Close()
	}
	p.once.Do(func() { close(p.cutCh) })
}

// WasCut is closed once the network was cut.
func (p *Proxy) WasCut() <-chan struct{} { return p.cutCh }

func (p *Proxy) IsCut() bool {
	p.mu.Lock()
	defer p.mu.Unlock()
	return p.dead
}

func (p *Proxy) Bytes() (c2s, s2c int64) {
	p.mu.Lock()
	defer p.mu.Unlock()
	return p.count[0], p.count[1]
}

func (p *Proxy) Close() {
	p.ln.Close()
	p.CutNow()
}

func (p *Proxy) accept() {
	for {
		c, err := p.ln.Accept()
		if err != nil {
			return
		}
		p.mu.Lock()
		if p.dead {
			p.mu.Unlock()
			c.Close()
			continue
		}
		p.mu.Unlock()
		s, err := net.Dial("tcp", p.target)
		if err != nil {
			c.Close()
			continue
		}
		p.mu.Lock()
		if p.dead {
			p.mu.Unlock()
			c.Close()
			s.Close()
			continue
		}
		p.conns = append(p.conns, c, s)
		p.mu.Unlock()
		go p.pump(C2S, c, s)
		go p.pump(S2C, s, c)
	}
}

func (p *Proxy) pump(d Dir, from, to net.Conn) {
	buf := make([]byte, 4096)
	for {
		n, err := from.Read(buf)
		if n > 0 {
			p.mu.Lock()
			if p.dead {
				p.mu.Unlock()
				break
			}
			allowed := int64(n)
			kill := false
			if p.cut[d] >= 0 && p.count[d]+allowed >= p.cut[d] {
				allowed = p.cut[d] - p.count[d]
				if allowed < 0 {
					allowed = 0
				}
				kill = true
			}
			p.count[d] += allowed
			p.mu.Unlock()
			if allowed > 0 {
				if _, werr := to.Write(buf[:allowed]); werr != nil {
					break
				}
			}
			if kill {
				p.CutNow()
				return
			}
		}
		if err != nil {
			break
		}
	}
	// one half ended (peer closed): close the pair so the other side sees it too
	from.Close()
	to.Close()
}
