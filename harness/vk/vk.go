// Package vk: shared helpers of the verification harness (PRNG, JSONL output).
package vk

import (
	"bufio"
	"encoding/json"
	"os"
	"sync"
)

// Rand is splitmix64; every random choice of a run derives from one state (VERIF_SEED).
type Rand struct{ s uint64 }

func NewRand(seed uint64) *Rand { return &Rand{s: seed} }

func (r *Rand) U64() uint64 {
	r.s += 0x9e3779b97f4a7c15
	z := r.s
	z = (z ^ (z >> 30)) * 0xbf58476d1ce4e5b9
	z = (z ^ (z >> 27)) * 0x94d049bb133111eb
	return z ^ (z >> 31)
}

// Intn returns a value in [0,n).
func (r *Rand) Intn(n int) int {
	if n <= 0 {
		return 0
	}
	return int(r.U64() % uint64(n))
}

func (r *Rand) Bool() bool { return r.U64()&1 == 1 }

func (r *Rand) Bytes(n int) []byte {
	b := make([]byte, n)
	for i := range b {
		b[i] = byte(r.U64())
	}
	return b
}

// Fork derives an independent stream (for per-case reproducibility).
func (r *Rand) Fork() *Rand { return &Rand{s: r.U64()} }

// Out writes one JSON value per line.
type Out struct {
	mu sync.Mutex
	f  *os.File
	w  *bufio.Writer
	N  int
}

func NewOut(path string) (*Out, error) {
	if path == "" || path == "-" {
		return &Out{f: os.Stdout, w: bufio.NewWriter(os.Stdout)}, nil
	}
	f, err := os.Create(path)
	if err != nil {
		return nil, err
	}
	return &Out{f: f, w: bufio.NewWriterSize(f, 1<<20)}, nil
}

func (o *Out) Put(v any) {
	b, err := json.Marshal(v)
	if err != nil {
		panic(err)
	}
	o.mu.Lock()
	o.w.Write(b)
	o.w.WriteByte('\n')
	o.N++
	o.mu.Unlock()
}

func (o *Out) Close() {
	o.w.Flush()
	if o.f != os.Stdout {
		o.f.Close()
	}
}

// Ints converts bytes to a JSON-friendly []int (encoding/json would base64 a []byte).
func Ints(b []byte) []int {
	r := make([]int, len(b))
	for i, x := range b {
		r[i] = int(x)
	}
	return r
}
